"""Engine adapter: gensim serves C15 (generator under virtual time) and C16
(solvability with chance faults switched off)."""
import json
import os

from . import gensim, core, VERIF

NAME = "gensim"


def budget(prop, tier):
    if prop == "C15":
        return {"runs": 3000 if tier == "quick" else 200000, "chunk": 25,
                "wall": 200 if tier == "quick" else 3300, "hang": 400}
    return {"runs": 4000 if tier == "quick" else 100000, "chunk": 20,
            "wall": 200 if tier == "quick" else 3300, "hang": 400}


def extra(prop, tier):
    return {}


def run_one(prop, tier, root, idx, ex):
    if prop == "C15":
        return gensim.c15_run_one(prop, tier, root, idx, ex)
    return gensim.c16_run_one(prop, tier, root, idx, ex)


def replay_run(prop, run, tier):
    res = {"idx": -1, "seed": run.get("seed", 0)}
    if prop == "C15":
        return gensim.c15_execute(run, tier, res)
    return gensim.c16_execute(run, tier, res)


def shrink_candidates(run):
    """C15: retry the failing parameter set with fewer hosts / default
    values, same seed."""
    if "params" not in run:
        return
    p = run["params"]
    defaults = {"num_exploits": None, "num_privescs": None,
                "exploit_probs": 1.0, "privesc_probs": 1.0,
                "random_goal": False, "address_space_bounds": None,
                "step_limit": None, "base_host_value": 1,
                "host_discovery_value": 1, "lambda_V": 1.0, "alpha_H": 2.0,
                "restrictiveness": 5, "r_sensitive": 10, "r_user": 10,
                "exploit_cost": 1, "privesc_cost": 1, "service_scan_cost": 1,
                "os_scan_cost": 1, "subnet_scan_cost": 1,
                "process_scan_cost": 1}
    for k, v in defaults.items():
        if p.get(k) != v:
            q = dict(p)
            q[k] = v
            yield {**run, "params": q}
    for n in (3, 8, p["num_hosts"] // 2):
        if 3 <= n < p["num_hosts"] and p.get("address_space_bounds") is None:
            q = dict(p)
            q["num_hosts"] = n
            yield {**run, "params": q}


def directed(prop, tier, known):
    out = []
    for fid, e in known.open.items():
        path = os.path.join(VERIF, e.get("example_replay", ""))
        if not os.path.exists(path):
            continue
        with open(path) as f:
            rec = json.load(f)
        from . import driver
        res = driver.isolated(replay_run, prop, rec["runs"][-1], tier)
        ok = "violation" in res and known.match(res) == fid
        known.directed[fid] = ok
        out.append((fid, ok))
    return out


def describe(prop):
    if prop == "C15":
        rule = ("one case = one parameter set of the documented domain "
                "(num_hosts 3..120, services 1..12, OS 1..5, processes 1..5, "
                "num_exploits/num_privescs None or within capacity, "
                "restrictiveness 1..8, alpha/lambda in (0,10] including "
                "exactly 1.0, probability specs None/'mixed'/float/list, "
                "costs, values, random_goal, step limit, custom address "
                "bounds) and a generator seed; generation runs under a "
                "virtual-time budget (2e6 traced line events in "
                "generator.py, 3e6 RNG draws), then the returned scenario "
                "is checked against the well-formedness clauses.  Several "
                "generations share one simulated process (state leaking "
                "between generate() calls is in scope).  distinct = digest "
                "of the parameter set; every case is non-trivial.")
        probes = ["generated_ok", "rule_at_restrictiveness",
                  "more_than_one_dmz_host", "custom_bounds"]
    else:
        rule = ("one case = one scenario (the 9 shipped YAML files, the 9 "
                "generated benchmarks with random seeds, random generator "
                "parameter sets of the C15 domain); the reference model "
                "computes the monotone closure with every draw succeeding "
                "and extracts a plan; the plan is replayed on the real "
                "environment, first meeting injected chance failures "
                "(draw above prob, then retry), then with chance forced to "
                "succeed; the last step must report terminated.  distinct ="
                " digest of the scenario spec; every case is non-trivial.")
        probes = ["solved", "plan_longer_than_step_limit"]
    return {
        "level": "exploration", "rule": rule, "probes": probes,
        "assumptions": [
            "sampling of the parameter domain, not enumeration",
            "virtual time = traced line events inside "
            "nasim/scenarios/generator.py and RNG draws; the budget is 50x "
            "the largest count observed for 100-host scenarios",
            "C16: solvability is decided by the reference semantics "
            "(DESIGN.md section 3) and confirmed on the real environment",
        ],
        "real": ["nasim.scenarios.generator (traced)", "nasim.scenarios."
                 "loader", "nasim.envs (C16 replay)", "numpy global "
                 "RandomState (counting proxy, bit-identical)"],
        "stub": ["C16: uniform source behind nasim.envs.network.np.random"],
    }
