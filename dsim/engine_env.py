"""Engine adapter: envsim serves C01-C11 and C13."""
from . import envsim, core

NAME = "envsim"
KEEP_TAIL = True      # the failing op is the last op of the trace

PROBES = {
    "C01": ["exploit_refused_os_only", "exploit_refused_service_only",
            "privesc_on_uncompromised", "privesc_low_access",
            "privesc_refused_process_only", "user_to_root_by_escalation",
            "user_exploit_on_root_host", "os_agnostic_action"],
    "C02": ["blocked_unreachable", "blocked_undiscovered", "blocked_no_pivot",
            "blocked_traffic", "blocked_not_compromised",
            "blocked_low_access", "admitted_by_internet_only",
            "admitted_by_compromised_only", "admitted_by_same_subnet_host",
            "remote_success_nonpublic"],
    "C03": ["scan_discovers_nothing_new", "scan_discovers_new",
            "exploit_opens_2plus_subnets", "exploit_opens_none"],
    "C04": ["reset_after_terminal", "exploit_on_root_host", "goal_reached"],
    "C05": ["negative_value_paid", "zero_cost_action", "fractional_cost",
            "root_via_escalation_paid"],
    "C06": ["goal_with_1_sensitive", "goal_with_2_sensitive",
            "goal_with_3_sensitive", "all_but_one_sensitive_root",
            "sensitive_with_user_only", "limit_hit_exactly",
            "limit_exceeded", "goal_query"],
    "C07": ["prob_0", "prob_1", "draw_within_1e-8_of_prob",
            "stochastic_escalation", "reexploit", "twins_on_eligible",
            "twins_on_ineligible", "episode_frequency"],
    "C08": ["obs_silent", "obs_exploit", "obs_privesc", "obs_service_scan",
            "obs_os_scan", "obs_process_scan", "obs_subnet_scan"],
    "C09": ["roundtrip"],
    "C10": [],
    "C11": ["flat_enumeration", "mask_checked", "mask_after_discovery",
            "host_index_wraps", "rebuild_compared"],
    "C13": ["gstep_on_stale_state", "repeated_gstep_compared"],
}

RULES = {
    "default": ("one case = one simulated run: a configuration drawn from the "
                "swarm (shipped benchmark / generated scenario / random valid "
                "YAML document / hand-shaped family), one mode triple, and an "
                "online-generated, model-guided sequence of step / "
                "generative-step / reset / query / sample operations with "
                "every chance draw scripted; each real step is preceded by two"
                " twin generative steps with the draw just below and just "
                "above the action's probability (decoy draws on the opposite "
                "side).  distinct = distinct digest of (configuration, mode, "
                "executed op list); non-trivial = the run contains at least "
                "one real step that changed the state (attack progress)."),
}


def budget(prop, tier):
    if prop in ("C09", "C10", "C11"):
        runs = 3000 if tier == "quick" else 100000
    else:
        runs = 4000 if tier == "quick" else 250000
    return {"runs": runs, "chunk": 25,
            "wall": 200 if tier == "quick" else 3300, "hang": 400}


def extra(prop, tier):
    e = {"props": [prop]}
    if prop in ("C01", "C02", "C03"):
        # more of the hand-shaped firewall / pivot families
        e["mix"] = {"benchmark": 0.12, "generated": 0.22, "yaml": 0.44,
                    "family": 0.22}
    if prop in ("C09", "C10", "C08"):
        e["huge_rate"] = 0.004     # a few scenarios with 200-300 hosts
        if prop == "C08":
            e["huge_rate"] = 0.007
    if prop in ("C07", "C13", "C04"):
        e["big_rate"] = 0.06       # networks with 32-60 hosts
    if prop == "C11":
        e["modes"] = [(fo, fa, fb) for fo in (False,) for fa in (True, True,
                                                                 False)
                      for fb in (True,)]
    return e


def run_one(prop, tier, root, idx, ex):
    return envsim.run_one(prop, tier, root, idx, ex)


def replay_run(prop, run, tier):
    res = {"idx": -1, "seed": run.get("seed", 0)}
    return envsim.execute(run["spec"], run["modes"], run.get("props", [prop]),
                          run.get("seed", 0), tier, res, ops=run["ops"],
                          shadow=run.get("shadow"),
                          prelude=run.get("prelude"))


def shrink_candidates(run):
    """Simpler variants of the failing run: plain encodings, succeeding
    draws, no-op queries dropped."""
    ops = run["ops"]
    for i, op in enumerate(ops):
        if op.get("enc") not in (None, "int", "list"):
            cand = dict(run)
            new = dict(op)
            new["enc"] = "int" if run["modes"]["flat_actions"] else "list"
            cand["ops"] = ops[:i] + [new] + ops[i + 1:]
            yield cand
        if op["op"] == "sample":
            continue
        if "u" in op and op["u"] and float.fromhex(op["u"][0]) > 1e-9:
            cand = dict(run)
            new = dict(op)
            new["u"] = [float(0.0).hex()] * len(op["u"])
            cand["ops"] = ops[:i] + [new] + ops[i + 1:]
            yield cand


def describe(prop):
    return {
        "level": "exploration",
        "rule": RULES["default"],
        "probes": PROBES.get(prop, []),
        "assumptions": [
            "sampling, not enumeration: a clean batch is evidence, not proof",
            "configuration is read independently from the YAML text / the "
            "generator's scenario_dict (dsim.reader); status is read from the "
            "real environment through State.get_host(addr) accessors",
            "reference predicates of DESIGN.md section 3 (written from the "
            "property statements and the tutorials)",
            "topologies are symmetric and self-connected, with a rule in each "
            "direction for every connected pair (documented assumptions)",
        ],
        "real": ["nasim.envs (environment, network, state, host_vector, "
                 "observation, action)", "nasim.scenarios (loader, generator, "
                 "scenario, host)", "gymnasium spaces", "PyYAML", "numpy"],
        "stub": ["the uniform source behind nasim.envs.network.np.random "
                 "(scripted stream; everything else of numpy is forwarded)"],
    }
