"""multisim - several environments in one simulated process.

C12: 8 replicas (all mode triples) of one scenario executing one action log,
     once under identical scripted draws and once with NumPy's global
     generator seeded identically; the trajectories must agree.
C19: 2-3 live environments whose constructions, resets, steps, generative
     steps and decodes are interleaved by the schedule stream; every
     environment must behave exactly as in a solo replay of its own ops.
"""
import numpy as np

from . import core, configs, envsim, findings, model, oracles, seams, reader
from .core import Violation
from .envsim import EnvSim, SutError, MODE_TRIPLES

# ==========================================================================
# C12
# ==========================================================================


def c12_generate(spec, seed, tier):
    """Action log from a model-guided run on replica 0 (no oracles)."""
    wl = core.stream(seed, "workload")
    fl = core.stream(seed, "faults")
    sw = envsim.Swarm(core.stream(seed, "swarm"), [])
    sw.p_gstep = 0.0
    sw.p_query = 0.0
    sw.p_sample = 0.0
    sw.exotic_enc = False
    sw.p_reject = sw.p_rollout = sw.p_sibling = 0.0
    sw.n_ops = min(80, sw.n_ops * 2 if tier == "quick" else sw.n_ops * 4)
    sim = EnvSim(spec, {"fully_obs": False, "flat_actions": True,
                        "flat_obs": True}, [], seed, tier)
    try:
        sim.generate(wl, fl, sw)
    finally:
        sim.close()
    ops = []
    for op in sim.ops:
        op = {k: v for k, v in op.items() if k not in ("sid", "enc")}
        ops.append(op)
    return ops


def c12_run_replicas(spec, ops, seed, tier, phase, shared, counters,
                     seed_before=False):
    """Execute the log on all 8 replicas; returns list of per-replica output
    records and the list of ops actually executed by everyone."""
    rng = core.stream(seed, "encoding")
    scenario = cfg = None
    if shared:
        scenario, cfg = configs.build(spec)
    # ops expressible in both action spaces
    outs = []
    np_seed = core.h64(f"{seed}|np") % (2 ** 32)
    usable = None
    keep_alive = []
    foreign = None
    if spec["kind"] == "yaml" and seed % 3 == 0:
        import yaml
        from . import docgen
        try:
            base = yaml.safe_load(spec["text"])
            like = docgen.gen_doc(core.stream(seed, "like"), like=base,
                                  step_limit=None)
            if len(like["subnets"]) == len(base["subnets"]) and \
                    max(like["subnets"]) == max(base["subnets"]):
                foreign, _ = configs.build(
                    {"kind": "yaml", "text": docgen.emit(like)})
        except Exception:
            foreign = None
    for mt in MODE_TRIPLES:
        modes = {"fully_obs": mt[0], "flat_actions": mt[1], "flat_obs": mt[2]}
        if phase == "seeded" and seed_before:
            # the user seeds first and builds the environment afterwards
            np.random.seed(np_seed)
            counters.hit("probe.seeded_before_construction")
        sim = EnvSim(spec, modes, [], seed, tier,
                     scripted=(phase == "scripted"), scenario=scenario,
                     cfg=cfg, record=True)
        try:
            if foreign is not None:
                # foreign activity: another scenario with the same layout but
                # other subnet sizes gets its own parameterised environment
                # while this replica is alive
                from nasim.envs import NASimEnv
                st = np.random.get_state()
                try:
                    keep_alive.append(NASimEnv(foreign, fully_obs=mt[0],
                                               flat_actions=False,
                                               flat_obs=mt[2]))
                except Exception:
                    pass
                np.random.set_state(st)
                counters.hit("fault.foreign_activity.like_env")
            if usable is None:
                # decide once (needs both tables): build a throw-away param
                # table from this scenario
                st = np.random.get_state()
                usable = _expressible(sim, ops)
                np.random.set_state(st)
                # calls the API rejects, made in every replica at the same
                # points of the history (each in its own action space)
                r3 = core.stream(seed, "rejects")
                if r3.random() < 0.4:
                    with_rejects = []
                    for op in usable:
                        if op["op"] == "step" and r3.random() < 0.08:
                            with_rejects.append({
                                "op": "reject", "call": "step",
                                "how": r3.choice(sorted(
                                    EnvSim.GENERIC_REJECT)),
                                "a": op["a"]})
                            counters.hit("fault.rejected_call.step")
                        with_rejects.append(op)
                    usable = with_rejects
            if phase == "seeded" and not seed_before:
                np.random.seed(np_seed)
            encs = envsim.FLAT_ENCODINGS if mt[1] else envsim.PARAM_ENCODINGS
            r2 = core.stream(seed, "encoding2-%d%d%d" % tuple(map(int, mt)))
            pref = r2.choice(encs)     # an agent mostly sticks to one style
            for op in usable:
                op = dict(op)
                if op["op"] == "step":
                    op["enc"] = rng.choice(encs)
                    if r2.random() < 0.7:
                        op["enc"] = pref
                    if not mt[1] and r2.random() < 0.3:
                        op["wrap"] = r2.randint(1, 5)
                    counters.hit("fault.encoding." + op["enc"])
                sim.exec_op(op)
            outs.append((mt, sim.record, sim.progress))
        finally:
            sim.close()
    return outs, usable


def _expressible(sim, ops):
    from nasim.envs import NASimEnv
    other = NASimEnv(sim.scenario, fully_obs=False,
                     flat_actions=not sim.table.flat, flat_obs=True)
    t2 = envsim.ActionTable(other, sim.cfg)
    out = []
    for op in ops:
        if op["op"] == "step":
            a = op["a"]
            key = (a[0], (a[1][0], a[1][1]), a[2])
            if key not in sim.table.by_key or key not in t2.by_key:
                continue
        out.append(op)
    return out


def c12_compare(outs):
    ref_mt, ref, _ = outs[0]
    for mt, rec, _ in outs[1:]:
        if len(rec) != len(ref):
            raise Violation("C12.agree", "replicas executed a different "
                            "number of operations", modes=[ref_mt, mt])
        for i, ((k0, a), (k1, b)) in enumerate(zip(ref, rec)):
            diffs = []
            if k0 != k1:
                diffs.append("op kind")
            for f in ("state", "reward", "done", "trunc", "info"):
                if f in a and a.get(f) != b.get(f):
                    diffs.append(f)      # 'identical' is meant literally
            if diffs:
                raise Violation(
                    "C12.agree", "trajectories differ between mode "
                    "combinations", op_number=i, differs=diffs,
                    modes_a=list(ref_mt), modes_b=list(mt),
                    a={f: a.get(f) for f in diffs if f != "state"},
                    b={f: b.get(f) for f in diffs if f != "state"})
    # observations: equal within FO group and within PO group up to reshape
    for fo in (False, True):
        grp = [(mt, rec) for mt, rec, _ in outs if mt[0] == fo]
        m0, r0 = grp[0]
        for mt, rec in grp[1:]:
            for i, ((_, a), (_, b)) in enumerate(zip(r0, rec)):
                if a["obs"] != b["obs"]:
                    raise Violation(
                        "C12.agree", "observations of the same "
                        "observability mode differ beyond reshaping",
                        op_number=i, modes_a=list(m0), modes_b=list(mt))


def c12_run_one(prop, tier, root, idx, extra):
    seed = core.run_seed(prop, tier, root, idx)
    cfgr = core.stream(seed, "cfg")
    spec = configs.draw_spec(cfgr)
    res = {"idx": idx, "seed": seed}
    try:
        ops = c12_generate(spec, seed, tier)
    except SutError as e:
        res.update({"sut_error": str(e), "ops": 0, "steps": 0,
                    "trace": {"spec": spec, "seed": seed, "ops": []}})
        return res
    shared = cfgr.random() < 0.5
    trace = {"spec": spec, "seed": seed, "ops": ops, "shared": shared,
             "seed_before": cfgr.random() < 0.5}
    return c12_execute(trace, tier, res)


def c12_execute(trace, tier, res):
    counters = core.Counters()
    res["trace"] = trace
    res["ops"] = res["steps"] = 0
    try:
        for phase in ("scripted", "seeded"):
            outs, usable = c12_run_replicas(
                trace["spec"], trace["ops"], trace["seed"], tier, phase,
                trace.get("shared", False), counters,
                trace.get("seed_before", False))
            res["ops"] += len(usable) * 8
            res["steps"] += sum(1 for o in usable if o["op"] == "step") * 8
            res["progress"] = outs[0][2]
            counters.hit("phase." + phase)
            try:
                c12_compare(outs)
            except Violation as v:
                v.detail["phase"] = phase
                raise
    except Violation as v:
        res["violation"] = v.to_json()
    except SutError as e:
        res["sut_error"] = str(e)
    res["counters"] = dict(counters)
    res["case_digest"] = core.digest(core.jsonable(trace))
    return res


# ==========================================================================
# C19
# ==========================================================================
def layout_sig(cfg):
    return cfg.layout_signature()


class World:
    """A simulated process with several live environments."""

    def __init__(self, seed, tier, known=None):
        self.seed = seed
        self.tier = tier
        self.envs = {}          # id -> EnvSim
        self.records = {}       # id -> list of digests (one per own op)
        self.scen_cache = {}    # spec key -> (scenario, cfg)
        self.last_constructed = None
        self.generator = None   # one ScenarioGenerator instance, if reused
        self.seam = seams.scripted_network()
        self.rnd = self.seam.__enter__()
        self.counters = core.Counters()
        self.errors = {}        # id -> op index of first exception

    def close(self):
        for s in self.envs.values():
            s.seam = None
        self.seam.__exit__(None, None, None)

    def snapshot(self, skip):
        return {k: (s.env.current_state.tensor.tobytes(),
                    s.env.last_obs.tensor.tobytes(), s.env.steps)
                for k, s in self.envs.items() if k != skip
                and k not in self.errors}

    def exec(self, op):
        """Execute one op; returns (env id or None, digest or exception)."""
        kind = op["op"]
        k = op.get("env")
        if kind == "bench":
            import nasim
            st = np.random.get_state()
            try:
                nasim.make_benchmark_scenario(op["name"], op.get("bseed"))
            finally:
                np.random.set_state(st)
            self.counters.hit("fault.foreign_activity.bench")
            return None, None
        if kind == "rng":
            if op.get("reseed") is not None:
                np.random.seed(op["reseed"])
            else:
                np.random.rand(op.get("n", 1))
            self.counters.hit("fault.rng_disturb")
            return None, None
        if kind == "bad_construct":
            # a construction that is refused (rejected generator parameters,
            # a document that breaks a rule): the caller catches the error;
            # nobody else must notice
            self.counters.hit("fault.refused_construction")
            keep = np.random.get_state()
            try:
                from nasim.envs import NASimEnv
                scen, _ = configs.build(op["spec"], want_cfg=False) \
                    if op["spec"]["kind"] == "yaml" \
                    else configs.build(op["spec"])
                NASimEnv(scen, **op["modes"])
                self.counters.hit("refused_construction_accepted")
            except Exception:
                pass
            finally:
                np.random.set_state(keep)
            seams.collect_now()
            return None, None
        if kind == "fork":
            src = self.envs.get(op["from"])
            if src is None or k in self.envs:
                return k, None
            import copy
            import pickle
            try:
                if op.get("how") == "pickle":
                    try:
                        new = pickle.loads(pickle.dumps(src.env))
                    except Exception:
                        new = copy.deepcopy(src.env)
                else:
                    new = copy.deepcopy(src.env)
                sim = EnvSim.__new__(EnvSim)
                sim_init(sim, src.spec, src.modes, self, src.scenario,
                         src.cfg, env=new)
            except SutError as e:
                return k, ("EXC", type(e.exc).__name__)
            except Exception as e:
                return k, ("EXC", type(e).__name__)
            self.envs[k] = sim
            self.counters.hit("fault.restart.deepcopy_fork")
            return k, ("fork", new.current_state.tensor.tobytes(),
                       new.last_obs.tensor.tobytes(), int(new.steps))
        if kind == "drop":
            old = self.envs.pop(k, None)
            if old is None:
                return k, None
            old.oracle = None
            del old
            seams.collect_now()
            self.counters.hit("fault.restart.env_dropped")
            return k, ("drop",)
        try:
            if kind == "construct":
                d = self._construct(op)
            else:
                sim = self.envs.get(k)
                if sim is None:
                    return k, None
                d = self._env_op(sim, op)
        except SutError as e:
            return k, ("EXC", type(e.exc).__name__)
        except Exception as e:       # decode helpers etc.
            return k, ("EXC", type(e).__name__)
        return k, d

    def _construct(self, op):
        k = op["env"]
        spec = op["spec"]
        key = op.get("share")
        scenario = cfg = None
        if key is not None and key in self.scen_cache:
            scenario, cfg = self.scen_cache[key]
        if scenario is None and op.get("shared_generator") and \
                spec["kind"] == "generated":
            # every generated scenario of this world comes from ONE reused
            # ScenarioGenerator instance
            from nasim.scenarios import ScenarioGenerator
            if self.generator is None:
                self.generator = ScenarioGenerator()
            params = dict(spec["params"])
            if params.get("address_space_bounds") is not None:
                params["address_space_bounds"] = tuple(
                    params["address_space_bounds"])
            st = np.random.get_state()
            try:
                scenario = configs.guarded_generate(self.generator.generate,
                                                    **params)
            except Exception as e:
                raise SutError("build", e)
            finally:
                np.random.set_state(st)
            cfg = reader.from_generated(scenario)
        if k in self.envs:
            # the environment this one replaces is dropped first, and dies
            # here (deterministic collection point, see seams.SimId)
            old = self.envs.pop(k)
            old.oracle = None
            del old
            seams.collect_now()
        sim = EnvSim.__new__(EnvSim)
        # EnvSim installs its own seam; in a world the seam is shared
        sim_init(sim, spec, op["modes"], self, scenario, cfg)
        if key is not None:
            self.scen_cache[key] = (sim.scenario, sim.cfg)
        self.envs[k] = sim
        self.last_constructed = k
        self.counters.hit("op.construct")
        return ("construct", sim.env.current_state.tensor.tobytes(),
                sim.env.last_obs.tensor.tobytes())

    def _env_op(self, sim, op):
        kind = op["op"]
        self.counters.hit("op." + kind)
        sim.rnd = self.rnd
        sim.record = []
        if kind in ("step", "gstep", "reset"):
            o = {k: v for k, v in op.items() if k != "env"}
            sim.exec_op(o)
            return tuple(sorted((k, repr(v)) for k, v in
                                (sim.record[-1][1].items()
                                 if sim.record else ())))
        env = sim.env
        if kind == "readable":
            rd = env.current_state.get_readable()
            ord_, aux = env.last_obs.get_readable()
            return ("readable", repr(rd), repr(ord_), repr(aux))
        if kind == "roundtrip":
            from nasim.envs.state import State
            from nasim.envs.observation import Observation
            st = env.current_state
            s2 = State.from_numpy(st.numpy_flat(), st.shape(),
                                  st.host_num_map)
            o2 = Observation.from_numpy(env.last_obs.numpy_flat(),
                                        st.shape())
            hosts = [(a, float(s2.get_host(a).access),
                      float(s2.get_host(a).compromised),
                      tuple(int(v) for v in s2.get_host(a).address))
                     for a in sim.cfg.order]
            return ("roundtrip", s2.tensor.tobytes(), o2.tensor.tobytes(),
                    repr(hosts))
        if kind == "mask":
            if not sim.table.flat:
                return ("mask", None)
            return ("mask", env.get_action_mask().tobytes())
        if kind == "gen_initial":
            st = env.generate_initial_state()
            return ("gen_initial", st.tensor.tobytes())
        if kind == "gen_random_initial":
            keep = np.random.get_state()
            np.random.seed(op.get("np_seed", 0))
            try:
                st = env.generate_random_initial_state()
            finally:
                np.random.set_state(keep)
            return ("gen_random_initial", st.tensor.tobytes())
        if kind == "advert":
            return ("advert", int(env.get_minimum_hops()),
                    float(env.get_score_upper_bound()),
                    bool(env.goal_reached()),
                    repr(env.scenario.get_description()))
        raise ValueError(kind)


def sim_init(sim, spec, modes, world, scenario, cfg, env=None):
    """EnvSim construction inside a World (shared scripted seam).  With
    `env` the simulator wraps an existing environment object (a copy of
    another one, mid-episode) instead of constructing and resetting one."""
    from nasim.envs import NASimEnv
    sim.record = []
    sim.spec = spec
    sim.modes = dict(modes)
    sim.props = set()
    sim.seed = world.seed
    sim.tier = world.tier
    sim.counters = world.counters
    sim.ops = []
    sim.states = {}
    sim.state_sids = []
    sim.next_sid = 0
    sim.state_digests = set()
    sim.classes = set()
    sim.steps_total = 0
    sim.progress = 0
    sim.gstep_outputs = {}
    sim.gstep_ops = []
    sim.shadow = None
    sim.shadow_spec = None
    if scenario is None:
        try:
            scenario, cfg = configs.build(spec)
        except Exception as e:
            raise SutError("build", e)
    sim.scenario, sim.cfg = scenario, cfg
    from .layout import Layout
    sim.layout = Layout(cfg)
    if env is not None:
        sim.env = env
    else:
        try:
            sim.env = NASimEnv(scenario, **sim.modes)
        except Exception as e:
            raise SutError("construct", e)
    sim.fully_obs = bool(modes["fully_obs"])
    sim.flat_obs = bool(modes["flat_obs"])
    sim.table = envsim.ActionTable(sim.env, cfg)
    sim.seam = None
    sim.rnd = world.rnd
    sim.n_since_reset = 0
    sim.ledger = oracles.EpisodeLedger(cfg)
    sim.oracle = oracles.Oracles(sim)
    sim.episode_over = False
    sim.sut_errors = 0
    sim.init_obs = None
    if env is not None:
        sim.cur_sid = sim.keep_state(sim.env.current_state)
        sim.start_sid = sim.cur_sid
        return
    sim._do_reset(first=True)


def c19_world_run(ops, seed, tier, only=None):
    """Execute the schedule (or only the ops of environment `only`, plus
    nothing else) and return per-environment digests."""
    w = World(seed, tier)
    per_env = {}
    touched = []
    layout_hist = []      # (op index, env, layout signature) per construct
    # an environment that came to life as a copy of another one has that
    # one's history up to the copy as its own past
    parent = None
    if only is not None:
        for i, op in enumerate(ops):
            if op["op"] == "fork" and op.get("env") == only:
                parent = (op["from"], i)
                break
    try:
        for i, op in enumerate(ops):
            k = op.get("env")
            if only is not None and k != only and not (
                    parent is not None and k == parent[0]
                    and i < parent[1]):
                continue
            snap = w.snapshot(k) if only is None else None
            who, d = w.exec(op)
            if op["op"] in ("construct", "fork") and k in w.envs:
                layout_hist.append((i, k, layout_sig(w.envs[k].cfg)))
            if who is not None:
                per_env.setdefault(who, []).append((i, d))
            if snap is not None:
                after = w.snapshot(k)
                for other, val in snap.items():
                    if other in after and after[other] != val:
                        touched.append((i, other, k, op["op"]))
        layouts = {"final": {k: layout_sig(s.cfg)
                             for k, s in w.envs.items()},
                   "hist": layout_hist}
    finally:
        w.close()
    return per_env, touched, layouts, dict(w.counters)


def c19_generate(seed, tier):
    """Schedule over 2-3 environments."""
    rng = core.stream(seed, "schedule")
    cfgr = core.stream(seed, "cfg")
    fl = core.stream(seed, "faults")
    n_env = rng.choice([2, 2, 3])
    family = cfgr.choice(["same_object", "same_spec", "same_params",
                          "same_params", "mixed", "mixed_layout",
                          "bench_seeded_unseeded", "same_layout_rewired",
                          "near_equal_numbers", "same_layout_resized"])
    bench_name = cfgr.choice(configs.GEN_BENCH[:5])
    specs = []
    share = []
    base = configs.draw_spec(cfgr, {"benchmark": 0.25, "generated": 0.35,
                                    "yaml": 0.4})
    if family in ("same_object", "same_spec") and cfgr.random() < 0.4:
        base = configs.family_spec(cfgr, cfgr.choice(
            ["deny_heavy", "pivot_traffic", "many_services"]))
    if family == "same_object" and cfgr.random() < 0.5:
        # a chain of subnets with open firewalls: pivots deep in the network
        # are reached within a few productive steps
        from . import docgen
        d = docgen.gen_doc(cfgr, shape="chain", max_subnets=4,
                           open_firewall=True, step_limit=None,
                           deny_rate=0.0)
        for sec in ("exploits", "privilege_escalation"):
            for e in (d.get(sec) or {}).values():
                e["prob"] = 1.0
        base = {"kind": "yaml", "text": docgen.emit(d)}
    for k in range(n_env):
        if family == "same_object":
            specs.append(base)
            share.append("S")
        elif family == "same_spec":
            specs.append(base)
            share.append(None)
        elif family == "same_params":
            p = configs.gen_params(cfgr, max_hosts=20)
            if k == 0:
                gp = p
            p = dict(gp)
            p["seed"] = cfgr.randint(0, 2 ** 31 - 1)
            specs.append({"kind": "generated", "params": p})
            share.append(None)
        elif family == "bench_seeded_unseeded":
            # the same generated benchmark created with and without a seed
            if cfgr.random() < 0.5:
                specs.append({"kind": "genbench", "name": bench_name,
                              "seed": cfgr.randint(0, 10 ** 6)})
            else:
                specs.append({"kind": "genbench", "name": bench_name,
                              "seed": None,
                              "np_seed": cfgr.randint(0, 2 ** 31 - 1)})
            share.append(None)
        elif family == "same_layout_rewired":
            # same names, sizes and bounds (= same vector layout) but another
            # topology and firewall
            from . import docgen
            if k == 0:
                rw_doc = docgen.gen_doc(cfgr, max_subnets=5, step_limit=None)
                while len(rw_doc["subnets"]) < 3:
                    rw_doc = docgen.gen_doc(cfgr, max_subnets=5,
                                            step_limit=None)
                d = rw_doc
            else:
                d = docgen.clone(rw_doc)
                n = len(d["subnets"])
                T = docgen._topology(cfgr, n, cfgr.choice(
                    ["chain", "star", "tree", "clique"]),
                    cfgr.choice([1, 2]))
                d["topology"] = T
                d["firewall"] = {
                    docgen.A(i, j): list(d["services"])
                    for i in range(n + 1) for j in range(n + 1)
                    if i != j and T[i][j] == 1}
            specs.append({"kind": "yaml", "text": docgen.emit(d)})
            share.append(None)
        elif family == "same_layout_resized":
            # same names, number of subnets and largest subnet (= same vector
            # layout), other subnet sizes: another number of hosts and
            # another host numbering
            from . import docgen
            if k == 0:
                rs_doc = docgen.gen_doc(cfgr, max_subnets=4, step_limit=None)
                while len(rs_doc["subnets"]) < 2:
                    rs_doc = docgen.gen_doc(cfgr, max_subnets=4,
                                            step_limit=None)
                d = rs_doc
            else:
                d = docgen.gen_doc(cfgr, like=rs_doc, step_limit=None)
            specs.append({"kind": "yaml", "text": docgen.emit(d)})
            share.append(None)
        elif family == "near_equal_numbers":
            # the same generated scenario twice, but the second one's exploit
            # probabilities and costs differ in the third decimal
            if k == 0:
                ne_p = configs.gen_params(cfgr, max_hosts=15)
                ne = ne_p["num_exploits"] or ne_p["num_services"]
                ne_p["exploit_probs"] = [round(cfgr.uniform(0.2, 0.9), 2)
                                         for _ in range(ne)]
                ne_p["exploit_cost"] = 1.25
                p = ne_p
            else:
                p = dict(ne_p)
                p["exploit_probs"] = [x + 0.003 for x in
                                      ne_p["exploit_probs"]]
                p["exploit_cost"] = 1.253
            specs.append({"kind": "generated", "params": p})
            share.append(None)
        elif family == "mixed":
            # same layout signature is likely only for equal specs
            specs.append(base if k == 0 or cfgr.random() < 0.5 else
                         configs.draw_spec(cfgr))
            share.append(None)
        else:
            specs.append(configs.draw_spec(cfgr))
            share.append(None)
    ops = []
    constructed = []
    forked = []
    shared_gen = family == "same_params" and cfgr.random() < 0.5
    same_layout = family in ("same_object", "same_spec", "same_params",
                             "bench_seeded_unseeded", "same_layout_rewired",
                             "near_equal_numbers", "same_layout_resized")
    n_ops = rng.choice([10, 20, 30, 40, 60]) * \
        (2 if tier == "thorough" else 1)
    # scratch worlds to generate model-guided ops per environment
    gens = {}
    for k in range(n_env):
        mt = cfgr.choice(MODE_TRIPLES)
        modes = {"fully_obs": mt[0], "flat_actions": mt[1],
                 "flat_obs": mt[2]}
        gens[k] = (specs[k], modes, share[k])
    # first construct at least one env, others join later
    order = list(range(n_env))
    pending = order[1:]
    ops.append({"op": "construct", "env": 0, "spec": specs[0],
                "modes": gens[0][1], "share": share[0],
                "shared_generator": shared_gen})
    constructed.append(0)
    # a late joiner: the last environment is only built when most of the
    # schedule is over (the others have made progress by then)
    late = n_ops * 6 // 10 if core.h64(f"{seed}|late") % 2 == 0 else 0
    for op_no in range(n_ops):
        r = rng.random()
        held_back = len(pending) == 1 and op_no < late
        waiting = bool(pending) and not held_back
        if pending and r < 0.25 and not held_back:
            k = pending.pop(0)
            ops.append({"op": "construct", "env": k, "spec": specs[k],
                        "modes": gens[k][1], "share": share[k],
                        "shared_generator": shared_gen})
            constructed.append(k)
            continue
        if r < 0.07 and r >= 0.05 and not waiting and not forked:
            # an environment is copied mid-episode (copy.deepcopy / pickle
            # round trip); original and copy both go on
            k = rng.choice(constructed)
            j = n_env
            forked.append(j)
            gens[j] = gens[k]
            ops.append({"op": "fork", "env": j, "from": k,
                        "how": rng.choice(["deepcopy", "pickle"])})
            # original and copy are stepped side by side for a while
            for _ in range(rng.randint(2, 12)):
                ops.append({"op": "step", "env": rng.choice([k, j]),
                            "_fill": True})
            continue
        if r < 0.09 and r >= 0.07 and not waiting:
            ops.append({"op": "bad_construct", "spec": bad_spec(rng),
                        "modes": gens[0][1]})
            continue
        if r < 0.05 and not waiting and len(constructed) >= 2:
            # an environment is dropped (its objects die); its id may be
            # constructed again later
            k = rng.choice(constructed)
            ops.append({"op": "drop", "env": k})
            continue
        if r < 0.30 and not waiting and rng.random() < 0.3:
            # re-construct an environment id (a new object replaces the old
            # one, which dies) - from its own spec or from another member's
            k = rng.choice(constructed)
            j = rng.choice(constructed) if rng.random() < 0.5 else k
            ops.append({"op": "construct", "env": k, "spec": specs[j],
                        "modes": gens[k][1], "share": share[j],
                        "shared_generator": shared_gen})
            continue
        if r < 0.34:
            ops.append({"op": "bench",
                        "name": rng.choice(configs.GEN_BENCH[:5]),
                        "bseed": rng.choice([None, rng.randint(0, 999)])})
            continue
        if r < 0.38:
            ops.append({"op": "rng", "reseed": rng.choice(
                [None, rng.randint(0, 2 ** 31 - 1)]), "n": rng.randint(1, 5)})
            continue
        k = rng.choice(constructed + forked + forked)
        kind = rng.choice(["step"] * 10 + ["gstep", "gstep", "reset",
                                          "readable", "roundtrip", "mask",
                                          "advert", "advert"])
        if same_layout and rng.random() < 0.06:
            # public helpers that rebuild an initial state (they re-install
            # the class-level layout, so only used between equal layouts)
            kind = rng.choice(["gen_initial", "gen_random_initial"])
            ops.append({"op": kind, "env": k,
                        "np_seed": rng.randint(0, 2 ** 31 - 1)})
            continue
        ops.append({"op": kind, "env": k, "_fill": True})
    while pending:
        k = pending.pop(0)
        ops.append({"op": "construct", "env": k, "spec": specs[k],
                    "modes": gens[k][1], "share": share[k],
                    "shared_generator": shared_gen})
        ops.append({"op": "step", "env": k, "_fill": True})
    return ops, family


def bad_spec(rng):
    """A scenario source the library refuses."""
    kind = rng.choice(["params", "params", "float_bounds", "document"])
    if kind == "document":
        from . import docgen, docsim
        import copy
        doc = docgen.gen_doc(rng, max_subnets=3)
        names = sorted(docsim.OPERATORS)
        rng.shuffle(names)
        for name in names[:10]:
            d = copy.deepcopy(doc)
            try:
                if docsim.OPERATORS[name](d, rng):
                    return {"kind": "yaml", "text": docgen.emit(d)}
            except (KeyError, IndexError, ValueError):
                continue
        kind = "params"
    p = configs.gen_params(rng, max_hosts=20)
    if kind == "float_bounds":
        p["address_space_bounds"] = [float(rng.randint(6, 9)),
                                     float(rng.randint(6, 9))]
    else:
        configs.reject_params(p, rng)
    return {"kind": "generated", "params": p}


def c19_fill(ops, seed, tier):
    """Fill in model-guided actions and scripted draws by running each
    environment's ops once in a scratch world (solo)."""
    wl = core.stream(seed, "workload")
    fl = core.stream(seed, "faults")
    sw = envsim.Swarm(core.stream(seed, "swarm"), [])
    # attack progress is what makes interference visible
    sw.p_productive = max(sw.p_productive, 0.7)
    w = World(seed, tier)
    try:
        envs = sorted({op["env"] for op in ops if op.get("env") is not None})
        for k in envs:
            for op in ops:
                if op.get("env") != k:
                    continue
                if op["op"] in ("construct", "fork"):
                    w.exec(op)
                    continue
                sim = w.envs.get(k)
                if sim is None:
                    continue
                if op.pop("_fill", False) and op["op"] in ("step", "gstep"):
                    sim.rnd = w.rnd
                    g = sim._gen_step(wl, fl, sw) if op["op"] == "step" \
                        else sim._gen_gstep(wl, fl, sw)
                    g.pop("enc", None)
                    if op["op"] == "gstep":
                        g["src"] = "cur"
                    op.update({kk: vv for kk, vv in g.items() if kk != "op"})
                op.pop("_fill", None)
                w.exec(op)
    finally:
        w.close()
    for op in ops:
        op.pop("sid", None)
    return ops


def c19_check(trace, tier, res):
    seed = trace["seed"]
    ops = trace["ops"]
    known = findings.Known("C19")
    from . import driver
    counters = core.Counters()
    res["trace"] = trace
    envs = sorted({op["env"] for op in ops if op.get("env") is not None})
    try:
        # solo worlds first, each in a fresh forked process
        solo = {}
        for k in envs:
            solo[k] = driver.isolated(c19_world_run, ops, seed, tier, k)[0]
        inter, touched, layouts, ctr = c19_world_run(ops, seed, tier)
        counters.merge(ctr)
        tainted = set()
        # who was the last constructed environment before op i?
        last_con = {}
        cur = None
        built = {j for (j, _, _) in layouts["hist"]}
        for i, op in enumerate(ops):
            if op["op"] == "construct" and i in built:
                # (a construction that was refused - the document or the
                # parameters were invalid - installs no layout)
                cur = op["env"]
            last_con[i] = cur

        def layout_at(i, k):
            """Layout of the environment that had id k when op i ran."""
            sig = None
            for (j, kk, sg) in layouts["hist"]:
                if j <= i and kk == k:
                    sig = sg
            return sig

        def d10_detail(i, victim):
            lc = last_con.get(i)
            lv, ll = layout_at(i, victim), \
                (layout_at(i, lc) if lc is not None else None)
            return {
                "victim": victim, "op_number": i,
                "victim_is_last_constructed": lc == victim,
                "victim_layout_differs_from_last_constructed":
                    (lv is not None and ll is not None and lv != ll)}
        events = []
        for (i, other, actor, kind) in touched:
            events.append((i, "C19.no-touch", other,
                           f"an op ({kind}) of environment {actor} changed "
                           f"the state/last observation of environment "
                           f"{other}", {}))
        for k in envs:
            a = inter.get(k, [])
            b = solo[k].get(k, [])
            for (i, da), (_, db) in zip(a, b):
                if da != db:
                    what = "raised an exception" if (
                        isinstance(da, tuple) and da and da[0] == "EXC"
                        and not (isinstance(db, tuple) and db
                                 and db[0] == "EXC")) else "differs"
                    events.append((i, "C19.solo", k,
                                   f"environment {k}: outcome of its op "
                                   f"({ops[i]['op']}) in the interleaved "
                                   f"world {what} from its solo replay",
                                   {"interleaved_exception": da[1]
                                    if what != "differs" else None}))
                    break
        events.sort(key=lambda e: e[0])
        origin = {op["env"]: op["from"] for op in ops if op["op"] == "fork"}
        for (i, clause, victim, msg, more) in events:
            if victim in tainted or origin.get(victim) in tainted:
                # (a copy of an environment hit by a known finding carries
                # the damage with it)
                continue
            det = d10_detail(i, victim)
            det.update(more)
            v = Violation(clause, msg, **det)
            fake = {"violation": v.to_json()}
            fid = known.match(fake)
            if fid:
                tainted.add(victim)
                res.setdefault("known_hits", {})
                res["known_hits"][fid] = res["known_hits"].get(fid, 0) + 1
                continue
            raise v
        switches = sum(1 for a, b in zip(ops, ops[1:])
                       if a.get("env") is not None and b.get("env") is not None
                       and a["env"] != b["env"])
        if switches >= 3:
            counters.hit("probe.3plus_context_switches")
        if len(set(map(repr, [sg for _, _, sg in layouts["hist"]]))) > 1:
            counters.hit("probe.different_layouts")
        else:
            counters.hit("probe.same_layout")
        counters.hit("fault.foreign_activity", switches)
    except Violation as v:
        res["violation"] = v.to_json()
    res["counters"] = dict(counters)
    res["ops"] = len(ops)
    res["steps"] = sum(1 for o in ops if o["op"] == "step")
    res["nontrivial"] = len(envs) >= 2
    res["case_digest"] = core.digest(core.jsonable(trace))
    return res


def c19_run_one(prop, tier, root, idx, extra):
    seed = core.run_seed(prop, tier, root, idx)
    res = {"idx": idx, "seed": seed}
    from . import driver
    try:
        ops, family = c19_generate(seed, tier)
        ops = driver.isolated(c19_fill, ops, seed, tier)
    except (SutError, core.HarnessError) as e:
        res.update({"sut_error": str(e), "ops": 0, "steps": 0,
                    "trace": {"seed": seed, "ops": []}})
        return res
    trace = {"seed": seed, "ops": ops, "family": family}
    return c19_check(trace, tier, res)
