"""C11 configuration-time checks: the flat action space enumerates exactly the
scenario's actions; every vector of the parameterised space decodes to the
documented action (exhaustively per configuration, up to a vector budget)."""
import itertools

import numpy as np

from . import core, model
from .core import Violation

TYPES = ["exploit", "privesc", "service_scan", "os_scan", "subnet_scan",
         "process_scan"]


def expected_flat(cfg):
    """Multiset (as sorted list) of the action descriptions the scenario
    defines: one per host and scan type / exploit / escalation."""
    out = []
    for t in cfg.order:
        for kind in ("service_scan", "os_scan", "subnet_scan",
                     "process_scan"):
            out.append(desc(kind, t, kind, cfg.scan_cost[kind], 1.0, None,
                            None, None, None))
        for name, e in cfg.exploits.items():
            out.append(desc("exploit", t, name, e["cost"], e["prob"],
                            e["service"], None, e["os"], e["access"]))
        for name, p in cfg.privescs.items():
            out.append(desc("privesc", t, name, p["cost"], p["prob"], None,
                            p["process"], p["os"], p["access"]))
    return out


def desc(kind, target, name, cost, prob, service, process, os, access):
    return (kind, tuple(target), name, round(float(cost), 9),
            round(float(prob), 9), service, process, os,
            None if access is None else int(access))


def desc_of(a):
    act = model.act_of(a)
    return desc(act.kind, act.target, act.name, act.cost, act.prob,
                act.service, act.process, act.os, act.access)


def check_spaces(orc):
    sim, cfg, env = orc.sim, orc.cfg, orc.sim.env
    from nasim.envs.action import FlatActionSpace, ParameterisedActionSpace
    scen = sim.scenario
    want = sorted(expected_flat(cfg), key=repr)
    # ---- flat ----------------------------------------------------------
    flat = env.action_space if sim.table.flat else FlatActionSpace(scen)
    got = sorted((desc_of(a) for a in flat.actions), key=repr)
    if got != want:
        missing = [d for d in want if d not in got]
        extra = [d for d in got if d not in want]
        dup = len(got) - len(set(got))
        orc.fail("C11.flat", "the flat action space is not exactly one "
                 "action per host and scan type / exploit / escalation with"
                 " the scenario's attributes",
                 missing=missing[:4], unexpected=extra[:4], duplicates=dup,
                 size=len(got), expected_size=len(want))
    if flat.n != len(want) or scen.get_action_space_size() != len(want):
        orc.fail("C11.flat", "size of the flat space / advertised action "
                 "count != number of actions the scenario defines",
                 n=int(flat.n), advertised=scen.get_action_space_size(),
                 expected=len(want))
    for a in flat.actions:
        if int(a.req_access) != 1:
            orc.fail("C11.flat", "an action of the space does not require "
                     "user access on the pivot/target", action=str(a))
    # same scenario -> same index -> action map
    again = FlatActionSpace(scen)
    if [desc_of(a) for a in again.actions] != \
            [desc_of(a) for a in flat.actions]:
        orc.fail("C11.flat", "two flat spaces built from the same scenario "
                 "have different index -> action maps")
    for i in (0, len(want) - 1, len(want) // 2):
        if desc_of(flat.get_action(i)) != desc_of(flat.actions[i]):
            orc.fail("C11.flat", "get_action(i) is not actions[i]", index=i)
    orc.probe("flat_enumeration")
    sim.boot_flat_map = [desc_of(a) for a in flat.actions]
    # ---- parameterised ---------------------------------------------------
    pspace = env.action_space if not sim.table.flat else \
        ParameterisedActionSpace(scen)
    nvec = [int(v) for v in pspace.nvec]
    want_nvec = [6, len(cfg.subnets) - 1, max(cfg.subnets[1:]),
                 len(cfg.os) + 1, len(cfg.services), len(cfg.processes)]
    if nvec != want_nvec:
        orc.fail("C11.param", "parameter ranges differ from the documented "
                 "ones", nvec=nvec, expected=want_nvec)
    total = int(np.prod(nvec))
    budget = 20000 if sim.tier == "quick" else 200000
    flat_set = set(want)
    first_e = {}
    for name, e in cfg.exploits.items():
        first_e.setdefault((e["service"], e["os"]), (name, e))
    first_p = {}
    for name, p in cfg.privescs.items():
        first_p.setdefault((p["process"], p["os"]), (name, p))
    if total <= budget:
        vectors = itertools.product(*[range(n) for n in nvec])
        exhaustive = True
    else:
        rng = core.stream(sim.seed, "c11")
        vectors = (tuple(rng.randrange(n) for n in nvec)
                   for _ in range(budget))
        exhaustive = False
    count = 0
    shared = np.zeros(len(nvec), dtype=np.int64)   # a caller-owned buffer
    for vec in vectors:
        count += 1
        block = (count // 8) % 4      # runs of 8 vectors per encoding
        if block == 3:
            enc = np.array(vec, dtype=np.uint8 if max(nvec) < 256
                           else np.uint32)
        elif block == 0:
            enc = np.array(vec)
        elif block == 1:
            enc = list(vec)
        else:
            shared[:] = vec      # reused and mutated in place
            enc = shared
        try:
            a = pspace.get_action(enc)
            if block == 0 and count % 3 == 0:
                # the same array object decoded again (an agent repeating
                # its action): same answer, and the array is still the
                # caller's
                a_again = pspace.get_action(enc)
                if desc_of(a_again) != desc_of(a) or \
                        [int(v) for v in enc] != list(vec):
                    orc.fail("C11.param", "decoding the same vector object "
                             "twice gives two different actions / the "
                             "caller's vector was modified",
                             vector=list(vec),
                             vector_after=[int(v) for v in enc],
                             first=str(a), second=str(a_again))
        except Violation:
            raise
        except Exception as e:
            orc.fail("C11.param", "a vector of the parameterised space does "
                     "not decode", vector=list(vec),
                     error=f"{type(e).__name__}: {e}")
        typ, s, h, osi, sv, pr = vec
        subnet = s + 1
        host = h % cfg.subnets[subnet]
        kind = TYPES[typ]
        os_name = None if osi == 0 else cfg.os[osi - 1]
        if kind == "exploit":
            d = first_e.get((cfg.services[sv], os_name))
            exp = None if d is None else desc(
                "exploit", (subnet, host), d[0], d[1]["cost"], d[1]["prob"],
                d[1]["service"], None, d[1]["os"], d[1]["access"])
        elif kind == "privesc":
            d = first_p.get((cfg.processes[pr], os_name))
            exp = None if d is None else desc(
                "privesc", (subnet, host), d[0], d[1]["cost"], d[1]["prob"],
                None, d[1]["process"], d[1]["os"], d[1]["access"])
        else:
            exp = desc(kind, (subnet, host), kind, cfg.scan_cost[kind], 1.0,
                       None, None, None, None)
        got_d = desc_of(a)
        if exp is None:
            if got_d[0] != "noop" or float(a.cost) != 0:
                orc.fail("C11.param", "an undefined service/OS or "
                         "process/OS combination must decode to a zero-cost"
                         " no-op", vector=list(vec), decoded=str(a))
        else:
            if got_d != exp:
                orc.fail("C11.param", "a parameter vector does not decode "
                         "to the action it documents", vector=list(vec),
                         decoded=list(map(str, got_d)),
                         expected=list(map(str, exp)))
            if got_d not in flat_set:
                orc.fail("C11.param", "a decoded action is not a member of "
                         "the flat action set", vector=list(vec),
                         decoded=str(a))
    sim.counters.hit("c11.vectors", count)
    sim.counters.hit("c11.exhaustive" if exhaustive else "c11.sampled")
    if any(cfg.subnets[s] < max(cfg.subnets[1:])
           for s in range(1, len(cfg.subnets))):
        orc.probe("host_index_wraps")


def check_rebuild(orc):
    """The index -> action map of a space built *now* from the same scenario
    object equals the map built before any episode was played."""
    sim = orc.sim
    from nasim.envs.action import FlatActionSpace
    boot = getattr(sim, "boot_flat_map", None)
    if boot is None:
        return
    now = [desc_of(a) for a in FlatActionSpace(sim.scenario).actions]
    if now != boot:
        i = next((k for k, (a, b) in enumerate(zip(now, boot)) if a != b),
                 min(len(now), len(boot)))
        orc.fail("C11.flat", "a flat action space built from the same "
                 "scenario after some episodes has a different index -> "
                 "action map than one built before", first_difference=i,
                 now=list(map(str, now[i])) if i < len(now) else None,
                 before=list(map(str, boot[i])) if i < len(boot) else None)
    if sim.table.flat:
        live = [desc_of(a) for a in sim.env.action_space.actions]
        if live != boot:
            orc.fail("C11.flat", "the environment's own flat action list "
                     "changed during the run")
    orc.probe("rebuild_compared")


def check_decode_sample(orc, n=150):
    """The environment's parameterised space still decodes vectors to the
    documented actions *now* (after other environments were built, episodes
    played, ...): a seeded sample of vectors, same expectation as at boot."""
    sim, cfg, env = orc.sim, orc.cfg, orc.sim.env
    if sim.table.flat:
        return
    pspace = env.action_space
    nvec = [int(v) for v in pspace.nvec]
    first_e = {}
    for name, e in cfg.exploits.items():
        first_e.setdefault((e["service"], e["os"]), (name, e))
    first_p = {}
    for name, p in cfg.privescs.items():
        first_p.setdefault((p["process"], p["os"]), (name, p))
    rng = core.stream(sim.seed, "c11-again-%d" % len(sim.ops))
    for _ in range(n):
        vec = tuple(rng.randrange(k) for k in nvec)
        try:
            a = pspace.get_action(list(vec))
        except Exception as e:
            orc.fail("C11.param", "a vector of the parameterised space does "
                     "not decode (any more)", vector=list(vec),
                     error=f"{type(e).__name__}: {e}")
        typ, s, h, osi, sv, pr = vec
        subnet = s + 1
        host = h % cfg.subnets[subnet]
        kind = TYPES[typ]
        os_name = None if osi == 0 else cfg.os[osi - 1]
        if kind == "exploit":
            d = first_e.get((cfg.services[sv], os_name))
            exp = None if d is None else desc(
                "exploit", (subnet, host), d[0], d[1]["cost"], d[1]["prob"],
                d[1]["service"], None, d[1]["os"], d[1]["access"])
        elif kind == "privesc":
            d = first_p.get((cfg.processes[pr], os_name))
            exp = None if d is None else desc(
                "privesc", (subnet, host), d[0], d[1]["cost"], d[1]["prob"],
                None, d[1]["process"], d[1]["os"], d[1]["access"])
        else:
            exp = desc(kind, (subnet, host), kind, cfg.scan_cost[kind], 1.0,
                       None, None, None, None)
        got_d = desc_of(a)
        if exp is None:
            if got_d[0] != "noop" or float(a.cost) != 0:
                orc.fail("C11.param", "an undefined service/OS or "
                         "process/OS combination must decode to a zero-cost"
                         " no-op", vector=list(vec), decoded=str(a))
        elif got_d != exp:
            orc.fail("C11.param", "a parameter vector does not decode to the "
                     "action it documents (checked again during the run)",
                     vector=list(vec), decoded=list(map(str, got_d)),
                     expected=list(map(str, exp)))
    orc.probe("decode_rechecked")
