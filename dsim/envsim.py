"""envsim - single-environment deterministic simulation engine.

One run = one configuration, one mode triple, a sequence of operations
(step / gstep / reset / query / sample) with every chance draw scripted by the
simulator.  The workload is generated online (model guided) and recorded as an
op list; a replay re-executes a recorded op list.  Oracles are evaluated after
every op; the first violated clause ends the run.
"""
import numpy as np

from . import core, model, seams, configs, oracles
from .core import Violation
from .layout import Layout
from .model import act_of

FLAT_ENCODINGS = ["int", "int64", "int32", "uint16", "int16", "action"]
PARAM_ENCODINGS = ["list", "tuple", "ndarray", "ndarray32", "ndarray_u8",
                   "action", "buffer"]


class SutError(Exception):
    """The SUT raised where the run cannot continue (not a verdict for the
    properties that do not own exceptions)."""

    def __init__(self, where, exc):
        super().__init__(f"{where}: {type(exc).__name__}: {exc}")
        self.where = where
        self.exc = exc


def read_status(state, cfg):
    """Status of every host through the public accessors."""
    st = {}
    for a in cfg.order:
        h = state.get_host(a)
        st[a] = (_num(h.compromised), _num(h.reachable), _num(h.discovered),
                 _num(h.access))
    return st


def _num(x):
    x = float(x)
    return int(x) if x == int(x) else x


class ActionTable:
    """Meaning <-> encoding of the actions of one environment."""

    def __init__(self, env, cfg):
        self.env = env
        self.cfg = cfg
        self.flat = bool(env.flat_actions)
        # the simulator decodes through its OWN space object: asking the
        # environment's space before every step would keep refreshing
        # whatever that object remembers between calls
        self.decoder = env.action_space
        if not self.flat:
            try:
                from nasim.envs.action import ParameterisedActionSpace
                self.decoder = ParameterisedActionSpace(env.scenario)
            except Exception:
                self.decoder = env.action_space
        self.by_key = {}       # (kind, target, name) -> plain encoding
        self.keys = []
        self.by_target = {}    # target -> [key]
        if self.flat:
            for i, a in enumerate(env.action_space.actions):
                k = self.key_of(a)
                if k not in self.by_key:      # duplicates are C11's business
                    self.by_key[k] = i
                    self.keys.append(k)
        else:
            # a definition is expressible in the parameterised space iff it
            # is the first one for its (service, OS) / (process, OS) pair;
            # decided from the configuration, not by asking the decoder
            # (a wrong decode must show up as a divergence, not be hidden)
            for k, vec in self._param_vectors():
                self.by_key[k] = list(vec)
                self.keys.append(k)
        for k in self.keys:
            self.by_target.setdefault(k[1], []).append(k)

    @staticmethod
    def key_of(a):
        kind = model.KIND_OF_CLASS[type(a).__name__]
        return (kind, (int(a.target[0]), int(a.target[1])), a.name)

    def _param_vectors(self):
        cfg = self.cfg
        types = {"exploit": 0, "privesc": 1, "service_scan": 2, "os_scan": 3,
                 "subnet_scan": 4, "process_scan": 5}
        for (s, h) in cfg.order:
            for kind in ("service_scan", "os_scan", "subnet_scan",
                         "process_scan"):
                yield (kind, (s, h), kind), [types[kind], s - 1, h, 0, 0, 0]
            seen = set()
            for name, e in cfg.exploits.items():
                if (e["service"], e["os"]) in seen:
                    continue
                seen.add((e["service"], e["os"]))
                osi = 0 if e["os"] is None else cfg.os.index(e["os"]) + 1
                yield ("exploit", (s, h), name), \
                    [0, s - 1, h, osi, cfg.services.index(e["service"]), 0]
            seen = set()
            for name, p in cfg.privescs.items():
                if (p["process"], p["os"]) in seen:
                    continue
                seen.add((p["process"], p["os"]))
                osi = 0 if p["os"] is None else cfg.os.index(p["os"]) + 1
                yield ("privesc", (s, h), name), \
                    [1, s - 1, h, osi, 0, cfg.processes.index(p["process"])]

    def _same_type_other(self, plain):
        if not hasattr(self, "_by_type"):
            self._by_type = {}
            for k in self.keys:
                v = self.by_key[k]
                self._by_type.setdefault(v[0], []).append(v)
        pool = self._by_type.get(plain[0], ())
        if len(pool) < 2:
            return None
        try:
            i = pool.index(list(plain))
        except ValueError:
            i = 0
        return pool[(i + 1) % len(pool)]

    def encode(self, plain, enc, wrap=0):
        if not self.flat and wrap and enc != "action":
            # the host parameter is documented to wrap around the subnet's
            # size: another member of the space that names the same host
            plain = list(plain)
            size = self.cfg.subnets[int(plain[1]) + 1]
            cands = list(range(int(plain[2]) % size,
                               max(self.cfg.subnets[1:]), size))
            plain[2] = cands[wrap % len(cands)]
        if self.flat:
            if enc == "int":
                return int(plain)
            if enc == "int64":
                return np.int64(plain)
            if enc == "int32":
                return np.int32(plain)
            if enc == "uint16":
                return np.uint16(plain) if plain < 65536 else np.int64(plain)
            if enc == "int16":
                return np.int16(plain) if plain < 32768 else np.int64(plain)
            if enc == "action":
                return self.env.action_space.get_action(int(plain))
        else:
            if enc == "list":
                return [int(v) for v in plain]
            if enc == "tuple":
                return tuple(int(v) for v in plain)
            if enc == "ndarray":
                return np.array(plain, dtype=np.int64)
            if enc == "ndarray32":
                return np.array(plain, dtype=np.int32)
            if enc == "ndarray_u8":
                return np.array(plain, dtype=np.uint8 if max(plain) < 256
                                else np.int64)
            if enc == "action":
                # the agent decodes a batch of vectors first and steps the
                # Action objects afterwards: here, one more vector of the
                # same action type is decoded before the first is used
                obj = self.env.action_space.get_action(list(plain))
                other = self._same_type_other(plain)
                if other is not None:
                    self.env.action_space.get_action(list(other))
                return obj
            if enc == "buffer":
                # one caller-owned array reused for every action, as an agent
                # with a preallocated buffer would do; the agent writes only
                # the parameters that differ from what it wrote last time
                # (it owns the array: nobody else writes into it)
                if getattr(self, "_buffer", None) is None:
                    self._buffer = np.zeros(len(plain), dtype=np.int64)
                    self._buffer[:] = plain
                else:
                    for i, (new, old) in enumerate(zip(plain,
                                                       self._buffer_wrote)):
                        if int(new) != int(old):
                            self._buffer[i] = int(new)
                self._buffer_wrote = [int(v) for v in plain]
                return self._buffer
        raise ValueError(enc)


class Swarm:
    """Per-run workload parameters (swarm testing)."""

    def __init__(self, rng, props):
        self.n_ops = rng.choice([10, 20, 30, 40, 60])
        if rng.random() < 0.01:
            self.n_ops = 400         # a long history now and then
        self.p_productive = rng.choice([0.3, 0.5, 0.5, 0.7, 0.9])
        self.p_visible = rng.choice([0.2, 0.4, 0.6])
        self.p_reset = rng.choice([0.0, 0.02, 0.03, 0.08])
        self.p_gstep = rng.choice([0.0, 0.1, 0.2, 0.3])
        self.p_query = rng.choice([0.0, 0.05, 0.15])
        self.p_sample = rng.choice([0.0, 0.05, 0.1])
        self.p_chance_fail = rng.choice([0.0, 0.15, 0.25, 0.5])
        self.p_post_terminal = rng.choice([0.0, 0.3, 1.0])
        self.p_reconstruct = rng.choice([0.0, 0.0, 0.01, 0.03])
        self.exotic_enc = bool({"C10", "C11"} & set(props)) or \
            rng.random() < 0.15
        r2 = core.stream(rng.getrandbits(48), "swarm2")
        # an agent usually sticks to one way of encoding its actions
        self.pref_enc = r2.choice([None, None, "buffer", "ndarray", "int64",
                                   "action"])
        if not self.exotic_enc and r2.random() < 0.2:
            self.exotic_enc = True
        self.p_reject = r2.choice([0.0, 0.0, 0.02, 0.05])
        self.p_rollout = r2.choice([0.0, 0.02, 0.05])
        self.p_sibling = r2.choice([0.0, 0.0, 0.01, 0.03])


class EnvSim:
    def __init__(self, spec, modes, props, seed=0, tier="quick",
                 scripted=True, scenario=None, cfg=None, record=False,
                 env=None, shadow_spec=None):
        import nasim
        from nasim.envs import NASimEnv
        self.record = [] if record else None
        self.spec = spec
        self.modes = dict(modes)
        self.props = set(props)
        self.seed = seed
        self.tier = tier
        self.counters = core.Counters()
        self.ops = []               # executed ops (the replay trace)
        self.states = {}            # sid -> State objects kept for gsteps
        self.state_sids = []
        self.next_sid = 0
        self.state_digests = set()
        self.classes = set()
        self.steps_total = 0
        self.progress = 0
        self.gstep_outputs = {}
        self.gstep_ops = []
        if scenario is not None:
            self.scenario, self.cfg = scenario, cfg
        else:
            try:
                self.scenario, self.cfg = configs.build(spec)
            except Exception as e:
                raise SutError("build", e)
        self.layout = Layout(self.cfg)
        if env is None and scenario is None and seed % 11 in (3, 7):
            # the environment is built from a COPY of the scenario object
            # (copy.deepcopy / pickle round trip), the original stays around
            import copy
            import pickle
            self._scenario_original = self.scenario
            try:
                self.scenario = copy.deepcopy(self.scenario) \
                    if seed % 11 == 3 else \
                    pickle.loads(pickle.dumps(self.scenario))
                self.counters.hit("fault.scenario_copied")
            except Exception as e:
                raise SutError("build", e)
        if env is not None:
            self.env = env
        else:
            try:
                self.env = NASimEnv(self.scenario, **self.modes)
            except Exception as e:
                raise SutError("construct", e)
        self.fully_obs = bool(modes["fully_obs"])
        self.flat_obs = bool(modes["flat_obs"])
        self.table = ActionTable(self.env, self.cfg)
        if scripted:
            self.seam = seams.scripted_network()
            self.rnd = self.seam.__enter__()
            self.rnd.reseed_private(seed)
        else:
            self.seam = None
            self.rnd = seams.NullScript()
        self.n_since_reset = 0
        # a "plain agent" run: the only calls the environment ever sees are
        # reset and step (no look-ahead twins or companions of the oracle,
        # no queries) - what the object remembers between two steps is then
        # never refreshed by anything else
        self.quiet = (seed % 5 == 1) and "C13" not in self.props
        self.ledger = oracles.EpisodeLedger(self.cfg)
        self.oracle = oracles.Oracles(self)
        self.episode_over = False
        self.sut_errors = 0
        # the environment was reset by its constructor; reset again through
        # the public API to obtain the initial observation
        self.init_obs = None
        try:
            self.ctor_last_obs = np.array(self.env.last_obs.numpy(),
                                          copy=True)
        except Exception:
            self.ctor_last_obs = None
        self._do_reset(first=True)
        # optional second live environment with the same vector layout but
        # other host configurations ('foreign_activity' inside one run)
        self.shadow = None
        self.shadow_spec = shadow_spec
        if shadow_spec is not None and scripted:
            self._make_shadow(shadow_spec)

    def _exec_burst(self, op):
        """Many look-ahead generative steps in a row on the current state;
        the environment must be untouched afterwards."""
        env = self.env
        plain, obj = self.resolve(op)
        if obj is None:
            return
        x = plain if self.table.flat else list(plain)
        self.counters.hit("fault.background_gstep_burst")
        before = (env.current_state.tensor.tobytes(),
                  env.last_obs.tensor.tobytes(), env.steps,
                  id(env.current_state), id(env.last_obs))
        for i in range(int(op.get("n", 600))):
            self.rnd.push([0.5, 0.5])
            try:
                env.generative_step(env.current_state, x)
            except Exception as e:
                raise SutError("generative_step", e)
        after = (env.current_state.tensor.tobytes(),
                 env.last_obs.tensor.tobytes(), env.steps,
                 id(env.current_state), id(env.last_obs))
        if before != after and "C13" in self.props:
            names = ("current state", "last observation", "step counter",
                     "current state object", "last observation object")
            raise Violation("C13.pure", "a burst of generative steps changed"
                            " the environment", changed=[
                                n for n, a, b in zip(names, before, after)
                                if a != b], n=op.get("n", 600))

    def _exec_marathon(self, op):
        """A very long episode (more than 2**15 steps) of one cheap action
        in a scenario without step limit: the step-limit flag must never be
        raised and the counter must keep counting."""
        env = self.env
        if self.cfg.step_limit is not None:
            return
        plain, obj = self.resolve(op)
        if obj is None:
            return
        x = plain if self.table.flat else list(plain)
        self._do_reset()
        n = int(op.get("n", 33000))
        self.counters.hit("fault.marathon_episode")
        for i in range(n):
            self.rnd.push([0.999, 0.999])
            try:
                out = env.step(x)
            except Exception as e:
                raise SutError("step", e)
            if out[3] and "C06" in self.props:
                raise Violation("C06.limit", "step-limit flag raised in a "
                                "scenario without step limit", step=i + 1)
        if env.steps != n and "C06" in self.props:
            raise Violation("C06.limit", "env.steps != number of step() "
                            "calls since the last reset", env_steps=env.steps,
                            steps=n)
        self.steps_total += n
        self._do_reset()

    def _reconstruct(self):
        """Restart analogue: a new environment is built from the same
        Scenario object (the only thing that survives); all attack progress
        and every kept state is gone."""
        from nasim.envs import NASimEnv
        try:
            self.env = NASimEnv(self.scenario, **self.modes)
        except Exception as e:
            raise SutError("construct", e)
        self.table = ActionTable(self.env, self.cfg)
        self.states.clear()
        self.state_sids.clear()
        self.gstep_outputs.clear()
        self.gstep_ops = []
        self.__dict__.pop("_pre_cache", None)
        self.oracle = oracles.Oracles(self)
        seams.collect_now()      # the replaced environment dies here
        self._do_reset(first=False)

    def _make_shadow(self, spec):
        from . import multisim

        class _W:
            pass
        w = _W()
        w.seed, w.tier, w.rnd = self.seed, self.tier, self.rnd
        w.counters = core.Counters()
        sh = EnvSim.__new__(EnvSim)
        try:
            multisim.sim_init(sh, spec, self.modes, w, None, None)
        except SutError:
            return
        if sh.cfg.layout_signature() != self.cfg.layout_signature():
            return          # different layouts cannot coexist (finding D10)
        self.shadow = sh
        self.counters.hit("fault.foreign_activity.shadow_env")

    def close(self):
        if self.seam is not None:
            self.seam.__exit__(None, None, None)
            self.seam = None

    def rec_out(self, kind, **kw):
        if self.record is not None:
            self.record.append((kind, kw))

    # ------------------------------------------------------------------
    # state bookkeeping
    # ------------------------------------------------------------------
    def keep_state(self, state):
        # state ids are recorded in the op that produced the state, so that a
        # replay with some ops removed still resolves 'src' references
        op = getattr(self, "_op", None)
        sid = op.get("sid") if op is not None else None
        if sid is None:
            sid = self.next_sid
            if op is not None:
                op["sid"] = sid
        self.next_sid = max(self.next_sid, sid + 1)
        if sid in self.states:
            # an op that produces two states (e.g. two resets) re-uses its id
            self.state_sids = [x for x in self.state_sids if x != sid]
        self.states[sid] = state
        self.state_sids.append(sid)
        if len(self.state_sids) > 12:
            old = self.state_sids.pop(0)
            self.states.pop(old, None)
        return sid

    def note_state(self, status):
        self.state_digests.add(core.digest(
            self.spec_digest(), tuple(status[a] for a in self.cfg.order)))

    def spec_digest(self):
        if not hasattr(self, "_sd"):
            self._sd = core.digest(core.jsonable(self.spec))
        return self._sd

    # ------------------------------------------------------------------
    # ops
    # ------------------------------------------------------------------
    def _do_reset(self, first=False):
        env = self.env
        kw = {}
        op = getattr(self, "_op", None)
        if not first and op is not None and op.get("op") == "reset":
            kw = dict(op.get("kw") or {})
        try:
            out = env.reset(**kw)
        except Exception as e:
            raise SutError("reset", e)
        self.n_since_reset = 0
        self.episode_over = False
        self.ledger = oracles.EpisodeLedger(self.cfg)
        self.cur_sid = self.keep_state(env.current_state)
        self.start_sid = self.cur_sid
        post = read_status(env.current_state, self.cfg)
        self.note_state(post)
        self.oracle.after_reset(out, post, first)
        self.rec_out("reset", state=env.current_state.tensor.tobytes(),
                     obs=np.asarray(out[0]).tobytes())
        if first:
            self.init_obs = np.array(out[0], copy=True)
        self._scribble(out[0])

    def _hold(self, arr):
        """The caller keeps what reset()/step() returned: a later call must
        not change it (it is the observation of THAT moment)."""
        held = getattr(self, "_held", None)
        if held is not None and self.props & {"C08", "C10"}:
            ref, snap = held
            if not np.array_equal(ref, snap):
                self._held = None
                raise Violation(
                    "C08.stable" if "C08" in self.props else "C10.stable",
                    "an observation array returned by an earlier reset()/"
                    "step() was changed by a later call",
                    cells_changed=int(np.sum(ref != snap)))
        if isinstance(arr, np.ndarray) and self.seed % 4 != 0:
            self._held = (arr, np.array(arr, copy=True))
        else:
            self._held = None

    def _scribble(self, arr):
        """The caller owns what reset()/step() returned: writing into it
        (in-place normalisation, buffer reuse) must not affect the
        environment."""
        self._hold(arr)
        if self.seed % 4 == 0 and isinstance(arr, np.ndarray) and \
                arr.flags.writeable:
            arr[...] = 9.0
            self.scribbled = True     # env.last_obs may alias what we wrote
            self.counters.hit("fault.caller_writes_into_returned_obs")

    def resolve(self, op):
        """-> (plain encoding, Action object)"""
        a = op["a"]
        key = (a[0], (int(a[1][0]), int(a[1][1])), a[2])
        if key[0] == "noop":
            plain = op["vec"]
        else:
            plain = self.table.by_key.get(key)
            if plain is None:
                return None, None
        try:
            obj = self.table.decoder.get_action(
                plain if self.table.flat else list(plain))
        except Exception as e:
            raise SutError("get_action", e)
        try:
            obj._dsim_intended = key     # what the supplied encoding documents
        except Exception:
            pass
        return plain, obj

    def _gstep(self, state, x, draws):
        """One generative step under scripted draws -> record dict."""
        env = self.env
        self.rnd.push(draws)
        try:
            out = env.generative_step(state, x)
        except Exception as e:
            raise SutError("generative_step", e)
        log = list(self.rnd.log)
        return out, log, self.rnd.unscripted

    def exec_op(self, op):
        kind = op["op"]
        if getattr(self, "halted", False):
            return
        self._op = op
        self.ops.append(op)     # the failing op is the last one of the trace
        self.counters.hit("op." + kind)
        if kind == "reset":
            self.counters.hit("fault.restart")
            if self.episode_over:
                self.counters.hit("probe.reset_after_terminal")
            self._do_reset()
        elif kind in ("step", "sample"):
            self._exec_step(op)
        elif kind == "gstep":
            self._exec_gstep(op)
        elif kind == "query":
            self.oracle.query(op)
        elif kind == "burst":
            self._exec_burst(op)
        elif kind == "fork":
            # the agent continues with a copy of the environment
            # (copy.deepcopy or a pickle round trip); the original stays
            # alive and - "with": "orig" - is stepped a few times first
            import copy
            import pickle
            try:
                self._originals = getattr(self, "_originals", []) + [self.env]
                if op.get("how") == "shallow":
                    # copy.copy(env): shares the scenario, network and
                    # spaces with the original; the episode is its own
                    new = copy.copy(self.env)
                elif op.get("how") == "pickle":
                    try:
                        blob = pickle.dumps(self.env)
                    except Exception:
                        # whether an environment can be pickled is nobody's
                        # promise; a deep copy always is a copy
                        blob = None
                        self.counters.hit("fork.pickle_refused")
                    new = pickle.loads(blob) if blob is not None \
                        else copy.deepcopy(self.env)
                else:
                    new = copy.deepcopy(self.env)
            except Exception as e:
                raise SutError("deepcopy", e)
            old = self.env
            if self.props & {"C04", "C06", "C08", "C09", "C10", "C13"}:
                same = (np.array_equal(new.current_state.tensor,
                                       old.current_state.tensor),
                        np.array_equal(new.last_obs.tensor,
                                       old.last_obs.tensor),
                        new.steps == old.steps)
                if not all(same):
                    names = ("current state", "last observation",
                             "step counter")
                    clause = "C08.copy" if "C08" in self.props else (
                        "C06.limit" if "C06" in self.props and same[0]
                        and same[1] else sorted(self.props)[0] + ".copy")
                    raise Violation(
                        clause, "a copy of the environment (copy.deepcopy /"
                        " pickle round trip) is not in the state the "
                        "original is in", differs=[
                            n for n, ok in zip(names, same) if not ok],
                        how=op.get("how", "deepcopy"))
            keep_rng = np.random.get_state()
            for _ in range(int(op.get("orig_steps", 0))):
                # the original goes on for a while (its own business; the
                # global generator is put back afterwards, so that in
                # unscripted runs the copy sees the draws it would have seen)
                try:
                    self.rnd.push([0.5, 0.5])
                    old.action_space.seed(7)
                    out = old.step(old.action_space.sample())
                    if out[2] or out[3]:
                        old.reset()
                except Exception:
                    break
            np.random.set_state(keep_rng)
            self.env = new
            self.table = ActionTable(self.env, self.cfg)
            self.__dict__.pop("_pre_cache", None)
            self.states.clear()
            self.state_sids.clear()
            self.gstep_outputs.clear()
            self.gstep_ops = []
            self.oracle = oracles.Oracles(self)
            self.cur_sid = self.keep_state(self.env.current_state)
            self.counters.hit("fault.restart.deepcopy_fork")
        elif kind == "reject":
            self._exec_reject(op)
        elif kind == "sibling":
            self._exec_sibling(op)
        elif kind == "marathon":
            self._exec_marathon(op)
        elif kind == "epfreq":
            self.counters.hit("fault.unscripted_episodes")
            self.oracle.c07_episode_frequency(op)
            self._do_reset()
        elif kind == "reconstruct":
            self.counters.hit("fault.restart.reconstruct")
            self._reconstruct()
        elif kind == "shadow":
            if self.shadow is not None:
                self.counters.hit("fault.foreign_activity.shadow_step")
                o = {k: v for k, v in op.items()}
                o["op"] = "step"
                self.shadow.rnd = self.rnd
                self.shadow.exec_op(o)
                if self.shadow.episode_over:
                    self.shadow.exec_op({"op": "reset"})
        else:
            raise ValueError(kind)

    def _custom_root(self, obj):
        import copy
        from nasim.envs.utils import AccessLevel
        o = copy.copy(obj)
        o.req_access = AccessLevel.ROOT
        o._dsim_intended = None
        o._dsim_custom = True
        return o

    def _draws_for(self, op):
        return [float.fromhex(h) for h in op["u"]]

    def _exec_gstep(self, op):
        src = op["src"]
        if src == "last":
            # rollout: the state the previous look-ahead returned, which the
            # caller keeps in one variable (nothing else refers to it)
            state = getattr(self, "_last_out", None)
        else:
            state = self.env.current_state if src == "cur" else \
                self.states.get(src)
        if state is None:
            self.counters.hit("replay.skipped_gstep")
            return
        if op.get("rebuilt"):
            # the caller stored the state as an array (replay buffer) and
            # rebuilds it with the public constructor before looking ahead
            from nasim.envs.state import State
            try:
                arr = state.numpy_flat()
                if op["rebuilt"] == "float64":
                    arr = arr.astype(np.float64)
                elif op["rebuilt"] == "copy":
                    arr = np.array(arr, copy=True)
                state = State.from_numpy(arr, state.shape(),
                                         state.host_num_map)
            except Exception as e:
                raise SutError("generative_step", e)
            self.counters.hit("fault.state_rebuilt_from_array")
        plain, obj = self.resolve(op)
        if obj is None:
            self.counters.hit("replay.unresolved_action")
            return
        self.counters.hit("fault.background_gstep")
        if src != "cur" and src != self.cur_sid:
            self.counters.hit("probe.gstep_on_stale_state")
        x = self.table.encode(plain, "int" if self.table.flat else "list")
        rec = self.oracle.transition(state, obj, x, self._draws_for(op),
                                     real=False, background=True)
        # a generative step is a function of (state, action, draw): the same
        # op repeated later (other current state, other episode) must give
        # the same outputs
        snap = (rec["post_t"].tobytes(), rec["obs2d"].tobytes(),
                float(rec["reward"]), bool(rec["done"]), rec["info_snap"])
        if "C07" in self.props and op.get("drop") and \
                rec["act"].kind in ("exploit", "privesc") and \
                rec.get("u") is not None and rec["u"] < rec["act"].prob:
            # the same look-ahead with a draw above the probability: a
            # refused action must be refused under both draws
            hi = self.oracle.transition(state, obj, x, [0.9999999] * 3,
                                        background=True, tag="twin_hi")
            self.oracle._c07_twins(rec, hi, rec)
        if "C13" in self.props and src != "cur" and len(self.ops) % 2 == 0:
            # a generative step is a function of the state's VALUE: an equal
            # copy of the state (a new object) must give the same outputs
            try:
                st2 = state.copy()
            except Exception as e:
                raise SutError("generative_step", e)
            (ns2, obs2, r2, d2, i2), _, _ = self._gstep(
                st2, x, self._draws_for(op))
            snap2 = (ns2.tensor.tobytes(), obs2.tensor.tobytes(), float(r2),
                     bool(d2), oracles._canon_info(i2))
            self.counters.hit("probe.gstep_on_equal_copy_compared")
            names = ("next state", "observation", "reward", "terminal flag",
                     "info")
            diff = [n for n, a, b in zip(names, snap, snap2) if a != b]
            if diff:
                raise Violation(
                    "C13.pure", "the generative step on a state and on an "
                    "equal copy of it (State.copy(), same action, same draw)"
                    " give different results: the outcome depends on "
                    "something other than its arguments' values",
                    differs=diff, action=op["a"])
        if src in ("cur", "last") or op.get("rebuilt"):
            # (a rebuilt state is another object, possibly of another dtype:
            # not "the same generative step")
            rkey = None
        else:
            rkey = (src, tuple(map(str, op["a"])), tuple(op["u"]))
        if rkey is not None:
            old = self.gstep_outputs.get(rkey)
            if old is not None and "C13" in self.props:
                self.counters.hit("probe.repeated_gstep_compared")
                names = ("next state", "observation", "reward",
                         "terminal flag", "info")
                diff = [n for n, a, b in zip(names, old, snap) if a != b]
                if diff:
                    raise Violation(
                        "C13.pure", "the same generative step (same state "
                        "object, action and draw) gave different results "
                        "when repeated later: it depends on something "
                        "other than its arguments", differs=diff,
                        action=op["a"])
            self.gstep_outputs.setdefault(rkey, snap)
        self.rec_out("gstep", state=rec["post_t"].tobytes(),
                     obs=rec["obs2d"].tobytes(), reward=float(rec["reward"]),
                     done=bool(rec["done"]),
                     info=oracles._canon_info(rec["info"]))
        if op.get("chain"):
            self._last_out = rec["next_state"]
        elif op.get("drop"):
            pass         # the caller only looked at the flags / the reward
        else:
            self.keep_state(rec["next_state"])

    # ------------------------------------------------------------------
    # fault ops: rejected calls, rollouts, sibling environments
    # ------------------------------------------------------------------
    REJECT_FLAT = ["index_n", "index_big", "float", "float64", "none", "str",
                   "in_list"]
    REJECT_PARAM = ["floats", "float_array", "short", "type6", "none",
                    "scalar", "os_oob"]
    REJECT_SEEDS = ["neg", "float", "str", "int64"]

    def _gen_reject(self, fx):
        """A call the API rejects (wrongly encoded / out-of-range action, bad
        reset seed); the caller catches the exception and carries on with
        the same environment."""
        call = fx.choice(["step", "step", "step", "gstep", "reset"])
        if call == "reset":
            return {"op": "reject", "call": "reset",
                    "how": fx.choice(self.REJECT_SEEDS)}
        how = fx.choice(self.REJECT_FLAT if self.table.flat
                        else self.REJECT_PARAM)
        k = fx.choice(self.table.keys)
        if how in ("short", "os_oob") and k[0] != "exploit":
            how = "type6"      # scans never read the other parameters
        return {"op": "reject", "call": call, "how": how,
                "a": [k[0], list(k[1]), k[2]]}

    GENERIC_REJECT = {"g_float": ("float", "floats"),
                      "g_float_np": ("float64", "float_array"),
                      "g_oob": ("index_n", "type6"),
                      "g_none": ("none", "none"),
                      "g_wrong_kind": ("in_list", "scalar")}

    def _reject_arg(self, op):
        how = op["how"]
        if how in self.GENERIC_REJECT:
            # the same mistake, made in whatever action space this is
            how = self.GENERIC_REJECT[how][0 if self.table.flat else 1]
        if op["call"] == "reset":
            return {"neg": -1, "float": 1.5, "str": "abc",
                    "int64": np.int64(5)}[how]
        a = op["a"]
        plain = self.table.by_key.get((a[0], (int(a[1][0]), int(a[1][1])),
                                       a[2]))
        if plain is None:
            return None
        if self.table.flat:
            n = int(self.env.action_space.n)
            return {"index_n": n, "index_big": n + 7, "float": float(plain),
                    "float64": np.float64(plain), "none": None,
                    "str": str(plain), "in_list": [int(plain)]}[how]
        vec = [int(v) for v in plain]
        return {"floats": [float(v) for v in vec],
                "float_array": np.array(vec, dtype=np.float64),
                "short": vec[:3], "type6": [6] + vec[1:], "none": None,
                "scalar": int(vec[0]),
                "os_oob": vec[:3] + [len(self.cfg.os) + 3] + vec[4:]}[how]

    def _exec_reject(self, op):
        env = self.env
        arg = self._reject_arg(op)
        if arg is None and op["how"] not in ("none", "g_none"):
            return
        self.counters.hit("fault.rejected_call." + op["call"])
        try:
            if op["call"] == "reset":
                env.reset(seed=arg)
            elif op["call"] == "step":
                self.rnd.push([0.5, 0.5])
                env.step(arg)
            else:
                self.rnd.push([0.5, 0.5])
                env.generative_step(env.current_state, arg)
        except Exception:
            self.counters.hit("probe.call_rejected")
            return
        # the call was accepted: the history has left the documented domain
        # (nothing is known about what the call meant) - no more verdicts
        self.counters.hit("reject.accepted_run_halted")
        self.halted = True

    def _gen_rollout(self, wl, fl, fx, swarm):
        """s = generative_step(s, a)[0] a few times in a row: every state
        but the last one is dropped as soon as its successor exists."""
        self.counters.hit("fault.lookahead_rollout")
        src = "cur"
        for i in range(fx.randint(3, 8)):
            state = self.env.current_state if src == "cur" else \
                getattr(self, "_last_out", None)
            if state is None:
                break
            status = read_status(state, self.cfg)
            k = self._pick_action(wl, swarm, status)
            hist = getattr(self, "_rollout_keys", [])
            if i >= 2 and fx.random() < 0.4:
                k = hist[-2]     # try again what was tried before the last
            self._rollout_keys = (hist + [k])[-4:] if i else [k]
            a = self._act_of_key(k)
            self.exec_op({"op": "gstep", "src": src, "chain": True,
                          "a": [k[0], list(k[1]), k[2]],
                          "u": self._gen_draws(fl, swarm, a)})
            src = "last"

    def _gen_scan_ahead(self, wl, fl, fx, swarm):
        """One-step look-ahead over several candidate actions from the
        current state ('what would this action give me?'); every returned
        state is dropped at once."""
        self.counters.hit("fault.lookahead_sweep")
        status = read_status(self.env.current_state, self.cfg)
        keys = []
        k = self._productive(wl, status)
        if k is not None:
            keys.append(k)
        for _ in range(fx.randint(2, 5)):
            keys.append(self._pick_action(wl, swarm, status))
        fx.shuffle(keys)
        for k in keys:
            a = self._act_of_key(k)
            # (never a draw that equals the probability: a tie has measure
            # zero and is outside what C07 states)
            u = [float(a.prob / 2).hex()] * 3 \
                if (fx.random() < 0.6 and a is not None and a.prob > 0) \
                else self._gen_draws(fl, swarm, a)
            self.exec_op({"op": "gstep", "src": "cur", "drop": True,
                          "a": [k[0], list(k[1]), k[2]], "u": u})

    def _exec_sibling(self, op):
        """Another environment comes to life in the same process: built from
        a variant of this run's scenario (same name, same vector layout,
        other numbers), played for a few steps, kept or dropped."""
        rng = core.stream(op["v"], "sibling")
        spec = configs.variant_spec(self.spec, rng, self.cfg.name,
                                    keep_order=True)
        if spec is None:
            return
        self.counters.hit("fault.foreign_activity.sibling_env")
        sib = play_sibling(spec, self.modes, rng, self.rnd)
        if sib is not None and rng.random() < 0.5:
            self._siblings = getattr(self, "_siblings", []) + [sib]
        else:
            sib = None
            seams.collect_now()
        if "C11" in self.props:
            from . import actionspace
            actionspace.check_decode_sample(self.oracle)
            actionspace.check_rebuild(self.oracle)

    def _exec_step(self, op):
        env = self.env
        if op["op"] == "sample":
            try:
                env.action_space.seed(int(op["seed"]))
                x = env.action_space.sample()
                obj = env.action_space.get_action(x)
            except Exception as e:
                raise SutError("sample", e)
            self.counters.hit("fault.encoding.sample")
            plain = int(x) if self.table.flat else [int(v) for v in x]
        else:
            plain, obj = self.resolve(op)
            if obj is None:
                self.counters.hit("replay.unresolved_action")
                return
            enc = op.get("enc", "int" if self.table.flat else "list")
            if enc == "custom_root":
                # a self-built Action object (allowed by step) that needs ROOT
                # on the pivot / target instead of USER
                x = obj = self._custom_root(obj)
            else:
                x = self.table.encode(plain, enc, op.get("wrap", 0))
                if op.get("wrap") and not self.table.flat:
                    self.counters.hit("fault.encoding.wrapped_host_param")
            self.counters.hit("fault.encoding." + enc)
        if self.episode_over:
            self.counters.hit("fault.post_terminal")
        rec = self.oracle.real_step(
            obj, x, plain, self._draws_for(op),
            interpose=op.get("interpose"),
            doc_noop=(op["op"] == "step" and op["a"][0] == "noop"))
        self.steps_total += 1
        self.rec_out("step", state=rec["post_t"].tobytes(),
                     obs=np.asarray(rec["obs_out"]).tobytes(),
                     reward=float(rec["reward"]), done=bool(rec["done"]),
                     trunc=bool(rec["trunc"]),
                     info=oracles._canon_info(rec["info"]))
        self._scribble(rec["obs_out"])

    # ------------------------------------------------------------------
    # online workload generation
    # ------------------------------------------------------------------
    def generate(self, wl, fl, swarm):
        """Generate and execute ops.  wl: workload stream, fl: fault stream."""
        cfg = self.cfg
        fx = core.stream(self.seed, "faults2")
        follow = None
        if self.quiet:
            import copy
            swarm = copy.copy(swarm)
            swarm.p_gstep = swarm.p_query = swarm.p_rollout = 0.0
            swarm.p_sibling = 0.0
            self.counters.hit("workload.plain_agent_run")
        for _ in range(swarm.n_ops):
            if getattr(self, "halted", False):
                break
            if follow is not None:
                # the caller's retry of a rejected call, properly encoded
                op, follow = follow, None
                self.exec_op(op)
                continue
            rr = fx.random()
            if rr < swarm.p_reject:
                op = self._gen_reject(fx)
                self.exec_op(op)
                if op.get("a") is not None and fx.random() < 0.7:
                    follow = {"op": "gstep" if op["call"] == "gstep"
                              else "step", "a": op["a"],
                              "u": self._gen_draws(fl, swarm, None)}
                    if follow["op"] == "gstep":
                        follow["src"] = "cur"
                continue
            if rr < swarm.p_reject + swarm.p_rollout and \
                    not self.episode_over:
                if fx.random() < 0.5:
                    self._gen_rollout(wl, fl, fx, swarm)
                else:
                    self._gen_scan_ahead(wl, fl, fx, swarm)
                continue
            if rr < swarm.p_reject + swarm.p_rollout + swarm.p_sibling:
                self.exec_op({"op": "sibling",
                              "v": fx.randint(0, 2 ** 31 - 1)})
                continue
            if self.shadow is not None and wl.random() < 0.25:
                g = self.shadow._gen_step(wl, fl, swarm)
                g["op"] = "shadow"
                g.pop("enc", None)
                self.exec_op(g)
                continue
            if self.episode_over and wl.random() > swarm.p_post_terminal:
                op = self._gen_reset(wl)
            else:
                r = wl.random()
                if "C06" in self.props and self.cfg.step_limit is None \
                        and wl.random() < 0.0006:
                    k = wl.choice(self.table.keys)
                    op = {"op": "marathon", "a": [k[0], list(k[1]), k[2]],
                          "n": 33000}
                elif wl.random() < 0.004 or (
                        core.h64(f"{self.seed}|fork") % 6 == 0
                        and core.h64(f"{self.seed}|fk|{len(self.ops)}")
                        % 25 == 0):
                    hk = core.h64(f"{self.seed}|fh|{len(self.ops)}")
                    op = {"op": "fork",
                          "how": ("pickle", "deepcopy", "shallow")[hk % 3],
                          "orig_steps": (hk // 3) % 4}
                elif "C07" in self.props and wl.random() < 0.003:
                    op = {"op": "epfreq", "pick": wl.randint(0, 50),
                          "n": 500, "seed_first": wl.choice(
                              [None, wl.randint(1, 10 ** 6)])}
                elif "C13" in self.props and wl.random() < 0.004:
                    k = wl.choice(self.table.keys)
                    op = {"op": "burst", "a": [k[0], list(k[1]), k[2]],
                          "n": 600}
                elif wl.random() < swarm.p_reconstruct:
                    op = {"op": "reconstruct"}
                elif r < swarm.p_reset:
                    op = self._gen_reset(wl)
                elif r < swarm.p_reset + swarm.p_query:
                    op = self._gen_query(wl)
                elif r < swarm.p_reset + swarm.p_query + swarm.p_gstep:
                    op = self._gen_gstep(wl, fl, swarm)
                elif r < (swarm.p_reset + swarm.p_query + swarm.p_gstep
                          + swarm.p_sample):
                    op = {"op": "sample", "seed": wl.randint(0, 2 ** 31 - 1),
                          "u": self._gen_draws(fl, swarm, None)}
                else:
                    op = self._gen_step(wl, fl, swarm)
            if op is None:
                continue
            self.exec_op(op)
            if op["op"] == "reset" and wl.random() < 0.1:
                self.exec_op({"op": "reset"})      # double reset
            if op["op"] == "step" and not self.quiet and self.state_sids \
                    and (swarm.p_gstep > 0 or swarm.p_rollout > 0) \
                    and op["a"][0] in ("exploit", "privesc") \
                    and core.h64(f"{self.seed}|rt|{len(self.ops)}") % 5 == 0:
                # planner pattern: the action just taken is tried right away
                # on a state kept from earlier (where it may not apply)
                hh = core.h64(f"{self.seed}|rts|{len(self.ops)}")
                src = self.state_sids[hh % len(self.state_sids)]
                if hh % 2 and getattr(self, "start_sid", None) \
                        in self.states:
                    src = self.start_sid     # the state the episode began in
                if src in self.states:
                    self.exec_op({"op": "gstep", "src": src, "a": op["a"],
                                  "u": [float(1e-9).hex()] * 3,
                                  "drop": True})

    def _gen_reset(self, wl):
        """reset(), sometimes through the other documented Gymnasium
        arguments (they must not change what reset does)."""
        r = wl.random()
        if r < 0.15:
            return {"op": "reset", "kw": {"seed": wl.choice(
                [wl.randint(0, 2 ** 31 - 1), 0, 2 ** 32, 2 ** 32 + 17,
                 2 ** 63 - 1])}}
        if r < 0.25:
            return {"op": "reset", "kw": {"options": {}}}
        if r < 0.30:
            return {"op": "reset", "kw": {"seed": None, "options": None}}
        return {"op": "reset"}

    def _gen_query(self, wl):
        kinds = []
        if "C06" in self.props:
            kinds.append("goal")
        if "C11" in self.props:
            kinds.append("mask")
        if "C09" in self.props:
            kinds += ["readable", "roundtrip"]
        if "C10" in self.props:
            kinds.append("contains")
        kinds.append("readonly")
        what = wl.choice(kinds)
        src = "cur"
        if what == "goal" and self.state_sids and wl.random() < 0.5:
            src = wl.choice(self.state_sids)
        return {"op": "query", "what": what, "src": src}

    def _gen_draws(self, fl, swarm, act):
        """Scripted uniform values for one step: the first decides; the rest
        are decoys on the opposite side of prob."""
        p = act.prob if act is not None else 0.5
        fail = fl.random() < swarm.p_chance_fail
        r = fl.random()
        if r < 0.1:     # boundary draws
            eps = fl.choice([1e-9, 1e-12, 1e-6])
            u = p + eps if fail else p - eps
        else:
            u = fl.uniform(p, 1.0) if fail else fl.uniform(0.0, p)
        if u == p:
            u = p / 2 if not fail else (p + 1) / 2
        u = min(max(u, 0.0), 0.9999999999)
        if u == p:       # p == 0 with success wanted, or p ~ 1 with failure
            u = 0.5 if p != 0.5 else 0.25
        decoy = fl.uniform(p, 1.0) if u < p else fl.uniform(0.0, p)
        decoy = min(max(decoy, 0.0), 0.9999999999)
        return [float(u).hex(), float(decoy).hex(), float(decoy).hex()]

    def _pick_action(self, wl, swarm, status):
        """Model-guided choice of an action key."""
        cfg = self.cfg
        table = self.table
        if self.props & {"C01", "C02", "C03"} and \
                core.h64(f"{self.seed}|nm|{len(self.ops)}") % 8 == 0:
            k = self._near_miss(status)
            if k is not None:
                self.counters.hit("workload.near_miss")
                return k
        r = wl.random()
        if r < swarm.p_productive:
            k = self._productive(wl, status)
            if k is not None:
                self.counters.hit("workload.productive")
                return k
        if r < swarm.p_productive + swarm.p_visible:
            vis = [a for a in cfg.order if model.visible(status, a)
                   and a in table.by_target]
            if vis:
                t = wl.choice(vis)
                self.counters.hit("workload.visible_target")
                return wl.choice(table.by_target[t])
        self.counters.hit("workload.uniform")
        return wl.choice(table.keys)

    def _root_pivot_miss(self, status):
        cfg, table = self.cfg, self.table
        roots = [h for h in cfg.order if status[h][0] and status[h][3] >= 2]
        if not roots:
            return None
        cands = []
        for t in cfg.order:
            if not model.visible(status, t) or cfg.public(t[0]):
                continue
            if any(r[0] == t[0] or cfg.connected(r[0], t[0]) for r in roots):
                continue
            if not any(status[c][0] and (c[0] == t[0]
                                         or cfg.connected(c[0], t[0]))
                       for c in cfg.order):
                continue
            for k in table.by_target.get(t, ()):
                if k[0] in ("service_scan", "os_scan", "exploit"):
                    cands.append(k)
        if not cands:
            return None
        return cands[core.h64(f"{self.seed}|rpc|{len(self.ops)}")
                     % len(cands)]

    def _near_miss(self, status):
        """An exploit on a visible host whose host-level preconditions hold
        and that is refused by the network only (no admitted traffic from
        any single position / no pivot): the refusal must hold whatever the
        draw says.  Deterministic in (seed, op count, state)."""
        cfg, table = self.cfg, self.table
        cands = []
        for t in cfg.order:
            if not model.visible(status, t) or status[t][3] >= 2:
                continue
            for k in table.by_target.get(t, ()):
                if k[0] != "exploit":
                    continue
                a = self._act_of_key(k)
                if a is None or not model.host_pre(cfg, status, a):
                    continue
                if not model.net_pre(cfg, status, a):
                    cands.append(k)
            if len(cands) > 12:
                break
        if not cands:
            return None
        return cands[core.h64(f"{self.seed}|nmc|{len(self.ops)}")
                     % len(cands)]

    def _productive(self, wl, status):
        """An action the reference semantics says is enabled and useful."""
        cfg = self.cfg
        table = self.table
        cands = []
        comp = [h for h in cfg.order if status[h][0]]
        # subnet scans that discover something
        for h in comp:
            if status[h][3] >= 1 and any(
                    not status[x][2] for x in model.scan_discovers(cfg, h)):
                k = ("subnet_scan", h, "subnet_scan")
                if k in table.by_key:
                    cands.append(k)
        targets = [h for h in cfg.order if model.visible(status, h)
                   and status[h][3] < 2]
        wl.shuffle(targets)
        for t in targets[:6]:
            for k in table.by_target.get(t, ()):
                if k[0] not in ("exploit", "privesc"):
                    continue
                a = self._act_of_key(k)
                if a is None or a.access <= status[t][3]:
                    continue
                if model.host_pre(cfg, status, a) and \
                        model.net_pre(cfg, status, a):
                    cands.append(k)
        if not cands:
            return None
        return wl.choice(cands)

    def _act_of_key(self, k):
        cfg = self.cfg
        kind, t, name = k
        if kind == "exploit":
            e = cfg.exploits.get(name)
            if e is None:
                return None     # the space offers an action the source
                #                 does not define (C11's business)
            return model.Act(kind, t, name, e["cost"], e["prob"], 1,
                             e["service"], None, e["os"], e["access"])
        if kind == "privesc":
            p = cfg.privescs.get(name)
            if p is None:
                return None
            return model.Act(kind, t, name, p["cost"], p["prob"], 1, None,
                             p["process"], p["os"], p["access"])
        return model.Act(kind, t, name, cfg.scan_cost.get(kind, 0), 1.0, 1,
                         None, None, None, None)

    def _gen_step(self, wl, fl, swarm):
        status = read_status(self.env.current_state, self.cfg)
        k = self._pick_action(wl, swarm, status)
        a = self._act_of_key(k)
        if "C02" in self.props and \
                core.h64(f"{self.seed}|rp|{len(self.ops)}") % 10 == 0:
            # a self-built remote action that needs ROOT on its pivot, aimed
            # at a host whose neighbourhood holds USER pivots only while a
            # ROOT host exists elsewhere: must be refused
            k2 = self._root_pivot_miss(status)
            if k2 is not None:
                self.counters.hit("workload.root_pivot_miss")
                return {"op": "step", "a": [k2[0], list(k2[1]), k2[2]],
                        "enc": "custom_root",
                        "u": self._gen_draws(fl, swarm,
                                             self._act_of_key(k2))}
        if self.props & {"C01", "C02"} and wl.random() < 0.05 and \
                k[0] != "noop":
            return {"op": "step", "a": [k[0], list(k[1]), k[2]],
                    "enc": "custom_root",
                    "u": self._gen_draws(fl, swarm, a)}
        if self.table.flat:
            enc = wl.choice(FLAT_ENCODINGS) if swarm.exotic_enc else "int"
            if swarm.exotic_enc and swarm.pref_enc in FLAT_ENCODINGS and \
                    wl.random() < 0.7:
                enc = swarm.pref_enc
        else:
            enc = wl.choice(PARAM_ENCODINGS) if swarm.exotic_enc else "list"
            if swarm.exotic_enc and swarm.pref_enc in PARAM_ENCODINGS and \
                    wl.random() < 0.7:
                enc = swarm.pref_enc
            if wl.random() < (0.12 if self.props & {"C01", "C11", "C09", "C06"}
                               else 0.03):
                vec = self._noop_vector(wl, status)
                if vec is not None:
                    return {"op": "step", "a": ["noop", [1, 0], "noop"],
                            "vec": vec, "enc": "list",
                            "u": self._gen_draws(fl, swarm, None)}
        op = {"op": "step", "a": [k[0], list(k[1]), k[2]], "enc": enc,
              "u": self._gen_draws(fl, swarm, a)}
        if not self.table.flat and swarm.exotic_enc and \
                core.h64(f"{self.seed}|wrap|{len(self.ops)}") % 4 == 0:
            op["wrap"] = 1 + core.h64(f"{self.seed}|w|{len(self.ops)}") % 5
        if "C13" in self.props and fl.random() < 0.3:
            # planner pattern: look two steps ahead from the current state
            # (a productive action, then an action from the resulting
            # hypothetical state), then try that second action for real
            k1 = self._productive(wl, status)
            if k1 is not None and self._act_of_key(k1) is not None:
                a1 = self._act_of_key(k1)
                st2, _ = model.apply_success(self.cfg, status, a1)
                k2 = self._productive(wl, st2) or k
                a2 = self._act_of_key(k2)
                sid = self.next_sid
                self.next_sid += 1
                op["interpose"] = [
                    {"src": "cur", "a": [k1[0], list(k1[1]), k1[2]],
                     "u": [float(0.0).hex()] * 3, "sid": sid},
                    {"src": sid, "a": [k2[0], list(k2[1]), k2[2]],
                     "u": [float(0.0).hex()] * 3}]
                op["a"] = [k2[0], list(k2[1]), k2[2]]
                op["u"] = self._gen_draws(fl, swarm, a2)
                return op
        if "C13" in self.props and self.state_sids and fl.random() < 0.4:
            # look-ahead on other states between the companion generative
            # step and the real step
            inter = []
            for _ in range(fl.randint(1, 3)):
                src = fl.choice(self.state_sids)
                if src not in self.states:
                    continue
                st2 = read_status(self.states[src], self.cfg)
                k2 = self._pick_action(wl, swarm, st2)
                a2 = self._act_of_key(k2)
                inter.append({"src": src, "a": [k2[0], list(k2[1]), k2[2]],
                              "u": self._gen_draws(fl, swarm, a2)})
            op["interpose"] = inter
        return op

    def _noop_vector(self, wl, status=None):
        """A parameter vector of an undefined exploit/escalation combination
        (documented to decode to the no-op), if there is one."""
        cfg = self.cfg
        comp = [a for a in cfg.order if status and status[a][0]]
        vis = [a for a in cfg.order if status and model.visible(status, a)]
        for _ in range(20):
            typ = wl.choice([0, 1])
            s = wl.randint(0, len(cfg.subnets) - 2)
            h = wl.randint(0, max(cfg.subnets[1:]) - 1)
            pool = comp if (typ == 1 and comp) else vis
            if pool and wl.random() < 0.6:
                t = wl.choice(pool)
                s, h = t[0] - 1, t[1]
            osi = wl.randint(0, len(cfg.os))
            sv = wl.randint(0, len(cfg.services) - 1)
            pr = wl.randint(0, len(cfg.processes) - 1)
            os_name = None if osi == 0 else cfg.os[osi - 1]
            if typ == 0:
                defined = any(e["service"] == cfg.services[sv]
                              and e["os"] == os_name
                              for e in cfg.exploits.values())
            else:
                defined = any(p["process"] == cfg.processes[pr]
                              and p["os"] == os_name
                              for p in cfg.privescs.values())
            if not defined:
                return [typ, s, h, osi, sv, pr]
        return None

    def _gen_gstep(self, wl, fl, swarm):
        # sometimes repeat an earlier look-ahead verbatim (its source state
        # must still be stored)
        live = [o for o in self.gstep_ops if o["src"] in self.states]
        if live and "C13" in self.props and wl.random() < 0.35:
            o = wl.choice(live)
            return {"op": "gstep", "src": o["src"], "a": o["a"],
                    "u": o["u"]}
        src = "cur"
        if self.state_sids and wl.random() < 0.5:
            src = wl.choice(self.state_sids)
        state = self.env.current_state if src == "cur" else \
            self.states.get(src)
        if state is None:
            src, state = "cur", self.env.current_state
        status = read_status(state, self.cfg)
        k = self._pick_action(wl, swarm, status)
        a = self._act_of_key(k)
        op = {"op": "gstep", "src": src, "a": [k[0], list(k[1]), k[2]],
              "u": self._gen_draws(fl, swarm, a)}
        hr = core.h64(f"{self.seed}|rebuilt|{len(self.ops)}")
        if hr % 8 == 0:
            op["rebuilt"] = ("float64", "copy", "float64")[(hr // 8) % 3]
            if "C09" in self.props:
                # (the dtype of what a caller-built float64 state turns into
                # is not the library's promise; C09 judges float32 copies)
                op["rebuilt"] = "copy"
            return op
        if src != "cur":
            self.gstep_ops.append(op)
            self.gstep_ops = self.gstep_ops[-6:]
        return op


# --------------------------------------------------------------------------
# one run (worker entry point) and replay
# --------------------------------------------------------------------------
MODE_TRIPLES = [(fo, fa, fb) for fo in (False, True) for fa in (True, False)
                for fb in (True, False)]


def run_one(prop, tier, root, idx, extra):
    """Worker: generate + execute one run for property `prop`."""
    extra = extra or {}
    seed = core.run_seed(prop, tier, root, idx)
    cfgr = core.stream(seed, "cfg")
    wl = core.stream(seed, "workload")
    fl = core.stream(seed, "faults")
    props = extra.get("props") or [prop]
    spec = configs.draw_spec(cfgr, extra.get("mix"))
    if cfgr.random() < extra.get("huge_rate", 0.0):
        p = configs.gen_params(cfgr, max_hosts=30)
        p["num_hosts"] = cfgr.choice([201, 202, 205, 210, 257, 258, 300,
                                      257, 300])
        p["address_space_bounds"] = None
        p["uniform"] = False
        spec = {"kind": "generated", "params": configs.fix_params(p, cfgr)}
    c3 = core.stream(seed, "cfg3")
    if c3.random() < extra.get("big_rate", 0.0):
        # a network whose state tensor has well over a thousand cells
        p = configs.gen_params(c3, max_hosts=30)
        p["num_hosts"] = c3.randint(32, 60)
        p["address_space_bounds"] = None
        if c3.random() < 0.7:
            p["exploit_probs"] = c3.choice([0.5, 0.7, "mixed"])
        spec = {"kind": "generated", "params": configs.fix_params(p, c3)}
    mt = cfgr.choice(extra.get("modes") or MODE_TRIPLES)
    modes = {"fully_obs": mt[0], "flat_actions": mt[1], "flat_obs": mt[2]}
    swarm = Swarm(core.stream(seed, "swarm"), props)
    if tier == "thorough":
        swarm.n_ops = swarm.n_ops * 3
    if spec.get("family") == "long_chain":
        swarm.n_ops = min(swarm.n_ops, 25)      # 130 subnets: keep it short
    res = {"idx": idx, "seed": seed}
    shadow = None
    if cfgr.random() < 0.25:
        shadow = shadow_spec_for(spec)
    prelude = None
    c2 = core.stream(seed, "cfg2")
    if c2.random() < 0.12:
        prelude = [c2.randint(0, 2 ** 31 - 1)
                   for _ in range(c2.choice([1, 1, 2]))]
    return execute(spec, modes, props, seed, tier, res,
                   gen=(wl, fl, swarm), shadow=shadow, prelude=prelude)


def shadow_spec_for(spec):
    """A scenario with the same vector layout but other host configurations
    (None if there is no obvious one)."""
    if spec["kind"] == "generated":
        p = dict(spec["params"])
        p["seed"] = (p["seed"] + 1) % (2 ** 31)
        return {"kind": "generated", "params": p}
    if spec["kind"] == "genbench":
        return {"kind": "genbench", "name": spec["name"],
                "seed": spec["seed"] + 1}
    if spec["kind"] == "yaml":
        from . import docgen
        try:
            doc = configs.parse_doc(spec["text"])
            hosts = doc["host_configurations"]
            keys = list(hosts)
            if len(keys) < 2:
                return None
            cfgs = [(hosts[k]["os"], hosts[k]["services"],
                     hosts[k]["processes"]) for k in keys]
            cfgs = cfgs[1:] + cfgs[:1]
            for k, (o, sv, pr) in zip(keys, cfgs):
                hosts[k]["os"], hosts[k]["services"], \
                    hosts[k]["processes"] = o, sv, pr
            return {"kind": "yaml", "text": docgen.emit(doc)}
        except Exception:
            return None
    return None


def play_sibling(spec, modes, rng, rnd=None):
    """Build a sibling environment and play a few random actions in it.
    Nothing it does is judged; whatever it raises is ignored."""
    from nasim.envs import NASimEnv
    keep = np.random.get_state()
    try:
        scen, _ = configs.build(spec, want_cfg=False)
        m = dict(modes)
        if rng.random() < 0.3:
            m["flat_actions"] = not m["flat_actions"]
        env = NASimEnv(scen, **m)
        env.reset()
        for _ in range(rng.randint(0, 6)):
            if rnd is not None:
                rnd.push([rng.random(), rng.random()])
            env.action_space.seed(rng.randint(0, 2 ** 31 - 1))
            out = env.step(env.action_space.sample())
            if out[2] or out[3]:
                env.reset()
        return env
    except Exception:
        return None
    finally:
        np.random.set_state(keep)


def execute(spec, modes, props, seed, tier, res, gen=None, ops=None,
            shadow=None, prelude=None):
    sim = None
    try:
        try:
            held = []
            for v in (prelude or []):
                # earlier life of the process: an environment of a variant
                # scenario (same names, possibly listed in another order) was
                # built and used before this run's environment exists
                rng = core.stream(v, "prelude")
                vs = configs.variant_spec(spec, rng, None, keep_order=False)
                if vs is not None:
                    sib = play_sibling(vs, modes, rng)
                    if rng.random() < 0.5:
                        held.append(sib)
                    sib = None
                    seams.collect_now()
            sim = EnvSim(spec, modes, props, seed, tier, shadow_spec=shadow)
            sim._prelude_held = held
            if prelude:
                sim.counters.hit("fault.foreign_activity.predecessor_env",
                                 len(prelude))
            if gen is not None:
                sim.generate(*gen)
            else:
                for op in ops:
                    sim.exec_op(dict(op))
        except Violation as v:
            res["violation"] = v.to_json()
            res["violation"]["op_index"] = len(sim.ops) if sim else -1
        except SutError as e:
            res["sut_error"] = str(e)
            if "C10" in props and e.where in ("reset", "generative_step",
                                              "get_action", "sample",
                                              "step"):
                res["violation"] = Violation(
                    "C10.accept", f"the environment raised: {e}",
                    where=e.where).to_json()
                res["violation"]["op_index"] = len(sim.ops) if sim else -1
    finally:
        if sim is not None:
            sim.close()
    if sim is not None:
        res["ops"] = len(sim.ops)
        res["steps"] = sim.steps_total
        res["progress"] = sim.progress
        res["counters"] = dict(sim.counters)
        res["states"] = sorted(sim.state_digests)
        res["classes"] = sorted(sim.classes)
        res["trace"] = {"spec": spec, "modes": modes, "seed": seed,
                        "props": sorted(props), "ops": sim.ops,
                        "shadow": shadow, "prelude": prelude}
    else:
        res["ops"] = 0
        res["steps"] = 0
        res["progress"] = 0
        res["counters"] = {}
        res["states"] = []
        res["classes"] = []
        res["trace"] = {"spec": spec, "modes": modes, "seed": seed,
                        "props": sorted(props), "ops": [],
                        "shadow": shadow, "prelude": prelude}
    return res
