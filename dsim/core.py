"""Core of the simulator: seed tree, violation records, parallel batch runner,
evidence and replay files.

One integer (VERIF_SEED) decides everything: run k of property P in tier T has
run seed sha256("P|T|root|k")[:8]; labelled sub-streams are derived from the run
seed the same way, so adding a draw to one stream never shifts another.
Nothing here reads a clock for anything but the wall-time cap and the
evidence's wall_s; logging never draws from a PRNG.
"""
import faulthandler
import hashlib
import json
import multiprocessing
import os
import random
import sys
import time
import traceback

from . import VERIF, REPO

EXIT_OK, EXIT_VIOLATION, EXIT_HARNESS = 0, 1, 3


# --------------------------------------------------------------------------
# seeds
# --------------------------------------------------------------------------
def h64(text):
    return int.from_bytes(hashlib.sha256(text.encode()).digest()[:8], "big")


def run_seed(prop, tier, root, idx):
    return h64(f"{prop}|{tier}|{root}|{idx}")


def stream(seed, label):
    """Labelled sub-stream of a run seed."""
    return random.Random(h64(f"{seed}|{label}"))


def digest(*parts):
    m = hashlib.sha256()
    for p in parts:
        if isinstance(p, (bytes, bytearray, memoryview)):
            m.update(bytes(p))
        else:
            m.update(repr(p).encode())
        m.update(b"\x00")
    return m.hexdigest()[:16]


# --------------------------------------------------------------------------
# violations
# --------------------------------------------------------------------------
class Violation(Exception):
    """A property clause failed on the real code."""

    def __init__(self, clause, msg, **detail):
        super().__init__(f"{clause}: {msg}")
        self.clause = clause
        self.msg = msg
        self.detail = detail

    @property
    def prop(self):
        return self.clause.split(".")[0]

    def to_json(self):
        return {"clause": self.clause, "msg": self.msg,
                "detail": jsonable(self.detail)}


class HarnessError(Exception):
    pass


def jsonable(x):
    """Canonical JSON-able form (tuples -> lists, numpy -> python,
    floats kept as floats; dict keys -> str)."""
    import numpy as np
    if isinstance(x, dict):
        return {str(k): jsonable(v) for k, v in x.items()}
    if isinstance(x, (list, tuple)):
        return [jsonable(v) for v in x]
    if isinstance(x, (set, frozenset)):
        return sorted(jsonable(v) for v in x)
    if isinstance(x, np.ndarray):
        return jsonable(x.tolist())
    if isinstance(x, np.generic):
        return x.item()
    if isinstance(x, (str, int, float, bool)) or x is None:
        return x
    return repr(x)


# --------------------------------------------------------------------------
# counters
# --------------------------------------------------------------------------
class Counters(dict):
    """String-keyed integer counters that merge by addition."""

    def hit(self, key, n=1):
        self[key] = self.get(key, 0) + n

    def merge(self, other):
        for k, v in other.items():
            self[k] = self.get(k, 0) + v

    def group(self, prefix):
        return {k[len(prefix):]: v for k, v in sorted(self.items())
                if k.startswith(prefix)}


# --------------------------------------------------------------------------
# batch runner
# --------------------------------------------------------------------------
def nprocs():
    try:
        n = int(os.environ.get("VERIF_PROCS", "0"))
    except ValueError:
        n = 0
    if n <= 0:
        n = min(16, os.cpu_count() or 1)
    return n


def _chunk_worker(payload):
    """Runs in a forked child: executes a chunk of run indices in order.
    Every chunk gets a *fresh* process forked from the parent (which never
    touches the SUT), so the process-global state a run sees is exactly the
    runs of its own chunk that came before it - deterministic and independent
    of the worker count."""
    fn, prop, tier, root, idxs, extra, hang_s = payload
    faulthandler.enable()
    faulthandler.dump_traceback_later(hang_s, exit=True)
    from . import findings
    known = findings.Known(prop)
    out = []
    try:
        for idx in idxs:
            try:
                from . import seams
                sid = seams.install_sim_id(run_seed(prop, tier, root, idx))
                r = fn(prop, tier, root, idx, extra)
                if sid.reused and isinstance(r.get("counters"), dict):
                    r["counters"]["fault.address_reuse"] = sid.reused
                r["chunk"] = [idxs[0], idx]
                out.append(r)
                if "violation" in r:
                    fid = known.match(r)
                    if fid:
                        r["known"] = fid     # open finding: keep going
                    else:
                        break
            except Exception:  # harness bug, never a verdict
                out.append({"idx": idx, "harness_error":
                            traceback.format_exc()})
                # the run is abandoned (no verdict); the chunk goes on
    finally:
        faulthandler.cancel_dump_traceback_later()
    return out


def _child_main(conn, payload):
    try:
        res = _chunk_worker(payload)
        conn.send(res)
    except BaseException:
        try:
            conn.send([{"idx": payload[4][0],
                        "harness_error": traceback.format_exc()}])
        except Exception:
            pass
    finally:
        conn.close()
        try:
            from . import configs
            configs.cleanup_tmp()
        except Exception:
            pass
        os._exit(0)


def run_batch(fn, prop, tier, root, n_runs, extra=None, chunk=20,
              wall_cap=None, hang_s=600, procs=None, stop_on_violation=True):
    """Run fn(prop, tier, root, idx, extra) for idx in range(n_runs), one
    freshly forked process per chunk of consecutive indices.  fn returns a
    dict with at least 'idx'; optional 'violation', 'counters', 'states',
    'classes', 'trace', 'steps', 'ops'.

    Returns (results sorted by idx, truncated flag).  Raises HarnessError when
    a worker dies or reports a harness error."""
    from multiprocessing.connection import wait
    procs = procs or nprocs()
    t0 = time.time()
    chunks = [list(range(i, min(i + chunk, n_runs)))
              for i in range(0, n_runs, chunk)]
    results = []
    truncated = False
    ctx = multiprocessing.get_context("fork")
    live = {}       # conn -> (process, chunk)
    it = iter(chunks)
    stop = False
    died = None
    sys.stdout.flush()
    sys.stderr.flush()

    def launch():
        nonlocal truncated
        while len(live) < procs and not stop:
            if wall_cap and time.time() - t0 > wall_cap:
                truncated = True
                return
            c = next(it, None)
            if c is None:
                return
            pr, pw = ctx.Pipe(duplex=False)
            p = ctx.Process(target=_child_main, args=(
                pw, (fn, prop, tier, root, c, extra, hang_s)))
            p.start()
            pw.close()
            live[pr] = (p, c)
    launch()
    while live:
        ready = wait(list(live), timeout=hang_s + 30)
        if not ready:
            for conn, (p, c) in live.items():
                p.kill()
            raise HarnessError("no worker made progress (hang)")
        for conn in ready:
            p, c = live.pop(conn)
            try:
                res = conn.recv()
            except EOFError:
                died = c
                res = []
            conn.close()
            p.join()
            results.extend(res)
            if stop_on_violation and any("violation" in r
                                         and "known" not in r for r in res):
                stop = True
        if died is not None:
            for conn, (p, c) in live.items():
                p.kill()
            raise HarnessError(f"worker for runs {died[0]}..{died[-1]} died "
                               "(crash or hang, see faulthandler output)")
        launch()
    results.sort(key=lambda r: r["idx"])
    errs = [r for r in results if "harness_error" in r]
    if len(errs) > max(3, 0.005 * len(results)):
        # more than a handful of abandoned runs: the harness is broken
        raise HarnessError(
            f"{len(errs)} runs hit a harness exception; first, run "
            f"{errs[0]['idx']}:\n{errs[0]['harness_error']}")
    if truncated and not results:
        raise HarnessError("wall cap hit before any run finished")
    return results, truncated


# --------------------------------------------------------------------------
# files
# --------------------------------------------------------------------------
def write_json(path, obj):
    os.makedirs(os.path.dirname(path), exist_ok=True)
    tmp = path + ".tmp"
    with open(tmp, "w") as f:
        json.dump(obj, f, indent=1, sort_keys=True)
        f.write("\n")
    os.replace(tmp, path)


def replay_path(prop, seed):
    d = os.environ.get("VERIF_REPLAY_DIR") or os.path.join(VERIF, "replays")
    return os.path.join(d, f"{prop}-{seed}.json")


def write_evidence(prop, tier, seed, level, coverage, assumptions, wall_s,
                   violations, extra=None):
    ev = {
        "property_id": prop,
        "tier": tier,
        "seed": int(seed),
        "level": level,
        "coverage": jsonable(coverage),
        "assumptions": list(assumptions),
        "wall_s": round(float(wall_s), 3),
        "violations": int(violations),
        "repo": REPO,
    }
    if extra:
        ev.update(jsonable(extra))
    d = os.environ.get("VERIF_EVIDENCE_DIR") or os.path.join(VERIF,
                                                              "evidence")
    write_json(os.path.join(d, f"{prop}.json"), ev)
    return ev


def env_int(name, default):
    try:
        return int(os.environ.get(name, default))
    except (TypeError, ValueError):
        return default


def tier_from_env(default="quick"):
    t = os.environ.get("VERIF_TIER", default)
    return t if t in ("quick", "thorough") else default
