"""Engine adapter: multisim serves C12 (replica agreement) and C19
(instance independence under interleaving)."""
import json
import os

from . import multisim, core, VERIF

NAME = "multisim"


def budget(prop, tier):
    if prop == "C12":
        return {"runs": 600 if tier == "quick" else 20000, "chunk": 10,
                "wall": 200 if tier == "quick" else 3300, "hang": 400}
    return {"runs": 3000 if tier == "quick" else 150000, "chunk": 1,
            "wall": 200 if tier == "quick" else 3300, "hang": 400}


def extra(prop, tier):
    return {}


def run_one(prop, tier, root, idx, ex):
    if prop == "C12":
        return multisim.c12_run_one(prop, tier, root, idx, ex)
    return multisim.c19_run_one(prop, tier, root, idx, ex)


def replay_run(prop, run, tier):
    res = {"idx": -1, "seed": run.get("seed", 0)}
    if prop == "C12":
        return multisim.c12_execute(run, tier, res)
    return multisim.c19_check(run, tier, res)


def directed(prop, tier, known):
    """Directed run of the stored example of every open finding."""
    out = []
    for fid, e in known.open.items():
        path = os.path.join(VERIF, e.get("example_replay", ""))
        if not os.path.exists(path):
            continue
        with open(path) as f:
            rec = json.load(f)
        from . import driver
        saved = dict(known.directed)
        res = driver.isolated(_directed_run, prop, rec["runs"][-1], tier)
        ok = bool(res.get("known_hits", {}).get(fid)) or (
            "violation" in res and known.match(res) == fid)
        known.directed[fid] = ok
        out.append((fid, ok))
    return out


def _directed_run(prop, run, tier):
    return replay_run(prop, run, tier)


def describe(prop):
    if prop == "C12":
        rule = ("one case = one scenario (swarm as in envsim) with one "
                "model-guided action log (steps, resets, chance failures), "
                "executed on 8 replicas - every (fully_obs, flat_actions, "
                "flat_obs) triple - once under identical scripted draws and "
                "once with numpy's global generator seeded identically; the "
                "action encoding is varied per replica.  distinct = digest of "
                "(configuration, log); non-trivial = the log makes attack "
                "progress (some step changes the state).")
        probes = []
    else:
        rule = ("one case = one schedule: 2-3 environments (same scenario "
                "object / same spec built twice / same generator parameters "
                "with different seeds / different scenarios) whose "
                "constructions, resets, steps, generative steps, readable "
                "decodings, from_numpy round trips, masks, foreign "
                "make_benchmark_scenario calls and RNG disturbances are "
                "interleaved by the schedule stream; every environment's "
                "per-op outcome digests are compared with a solo replay of "
                "its own ops in a freshly forked process.  distinct = digest "
                "of the schedule; non-trivial = at least two environments "
                "are live.")
        probes = ["3plus_context_switches", "same_layout",
                  "different_layouts"]
    return {
        "level": "exploration", "rule": rule, "probes": probes,
        "assumptions": [
            "sampling of schedules, not enumeration",
            "draws are attached to ops (scripted), so a solo replay sees the "
            "same draws as the interleaved world",
            "C19: divergences matching the narrow signature of open finding "
            "D10 (victim is not the most recently constructed environment "
            "and its vector layout differs from that environment's) are "
            "reported as KNOWN-FINDING and taint only the victim",
        ],
        "real": ["nasim.envs", "nasim.scenarios", "gymnasium spaces",
                 "numpy global RandomState (C12 seeded phase)"],
        "stub": ["uniform source behind nasim.envs.network.np.random in the "
                 "scripted phases"],
    }
