"""dsim - deterministic simulation with fault injection for NASim.

Importing this package puts the NASim tree under test first on sys.path:
NASIM_VERIF_REPO (default /repo).  Every check therefore runs the current
working tree of that directory, no build step is needed (pure Python).
"""
import os
import sys

REPO = os.environ.get("NASIM_VERIF_REPO", "/repo")
VERIF = os.path.dirname(os.path.dirname(os.path.abspath(__file__)))

if REPO not in sys.path[:1]:
    sys.path.insert(0, REPO)


def import_nasim():
    """Import nasim from REPO and make sure that is really what we got."""
    import nasim  # noqa
    got = os.path.dirname(os.path.dirname(os.path.abspath(nasim.__file__)))
    if os.path.realpath(got) != os.path.realpath(REPO):
        raise RuntimeError(f"nasim imported from {got}, expected {REPO}")
    return nasim
