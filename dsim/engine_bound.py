"""Engine adapter: boundsim serves C20."""
from . import boundsim

NAME = "boundsim"


def budget(prop, tier):
    return {"runs": 1509 if tier == "quick" else 60009, "chunk": 20,
            "wall": 200 if tier == "quick" else 3300, "hang": 400}


def extra(prop, tier):
    return {}


run_one = boundsim.c20_run_one


def replay_run(prop, run, tier):
    return boundsim.c20_execute(dict(run), tier,
                                {"idx": -1, "seed": run.get("seed", 0)})


def sample(r):
    t = r["trace"]
    spec = t["spec"]
    if spec.get("kind") == "yaml":
        spec = {"kind": "yaml", "text_head": spec["text"][:500]}
    return {"run_index": r["idx"], "spec": spec,
            "plans": [p[:10] for p in (t.get("plans") or [])[:2]]}


def describe(prop):
    return {
        "level": "exploration",
        "rule": ("one case = one scenario of the C20 domain (every action "
                 "costs >= 1, no non-sensitive host worth more than 1): the "
                 "9 shipped files, generated benchmarks, generator "
                 "parameter sets forced into the domain (incl. negative "
                 "discovery values and several DMZ hosts), and random "
                 "documents biased to stars / trees / two public entry "
                 "points / sensitive hosts sharing a subnet.  The advertised"
                 " hop count is compared with the exact minimum number of "
                 "hosts to compromise (Dreyfus-Wagner on the subnet graph); "
                 "for configurations with <= 6 hosts the exact optimum of the "
                 "reference model (memoised search over the monotone state "
                 "graph), otherwise/additionally the pruned closure plan and "
                 "several randomised goal-reaching plans are replayed on the real "
                 "environment with the draws forced to succeed and the "
                 "episode totals compared with get_score_upper_bound().  "
                 "distinct = digest of the scenario spec; non-trivial = at "
                 "least one goal-reaching plan was replayed."),
        "probes": ["hops_checked", "hops_tight",
                   "two_or_more_sensitive_subnets",
                   "two_sensitive_hosts_in_one_subnet",
                   "negative_discovery_value", "goal_reaching_episode",
                   "exact_model_optimum", "bound_requeried_after_episode",
                   "bound_attained"],
        "assumptions": [
            "search over goal-reaching histories is heuristic (pruned "
            "closure + randomised productive plans), not exhaustive",
            "only a real episode above the bound counts as a violation of "
            "C20.bound",
            "the reference minimum ignores firewalls, as the statement "
            "says"],
        "real": ["nasim.envs (utils.get_minimal_hops_to_goal, "
                 "environment.get_score_upper_bound, step)",
                 "nasim.scenarios"],
        "stub": ["uniform source behind nasim.envs.network.np.random "
                 "(all draws succeed: faults off)"],
    }
