"""Determinism self-test: the digest of the complete result records of the
first N runs of every engine must not depend on the worker count, on
PYTHONHASHSEED, or on the interpreter instance.

python -m dsim.selftest digest <PROP> <N>   -> prints one digest line
python -m dsim.selftest all [N]             -> runs the matrix, exit 0/1
"""
import json
import os
import subprocess
import sys

from . import core, VERIF


def digest(prop, n):
    from . import import_nasim, cli
    import_nasim()
    eng = cli.engine_for(prop)
    res, trunc = core.run_batch(eng.run_one, prop, "quick", 12345, n,
                                extra=eng.extra(prop, "quick"),
                                chunk=eng.budget(prop, "quick").get(
                                    "chunk", 20),
                                stop_on_violation=False, hang_s=600)
    for r in res:
        r.pop("chunk", None)
    blob = json.dumps(core.jsonable(res), sort_keys=True)
    return core.digest(blob), len(res), sum(1 for r in res
                                            if "violation" in r)


PROPS = [("C01", 200), ("C07", 200), ("C08", 200), ("C11", 120),
         ("C13", 200), ("C12", 40), ("C19", 100), ("C15", 300), ("C16", 100),
         ("C17", 100), ("C18", 12), ("C14", 4), ("C20", 200)]


def main(argv):
    if argv[0] == "digest":
        d, n, v = digest(argv[1], int(argv[2]))
        print(f"DIGEST {argv[1]} {d} runs={n} violations={v}")
        return 0
    only = None
    if argv[0] == "only":
        only = set(argv[1:])
        argv = ["all"]
    scale = float(argv[1]) if len(argv) > 1 else 1.0
    bad = 0
    rows = []
    for prop, n in PROPS:
        if only is not None and prop not in only:
            continue
        n = max(2, int(n * scale))
        seen = {}
        for hs, procs in (("0", "16"), ("1", "4"), ("2", "1"), ("0", "7")):
            env = dict(os.environ, PYTHONHASHSEED=hs, VERIF_PROCS=procs,
                       PYTHONDONTWRITEBYTECODE="1")
            p = subprocess.run([sys.executable, "-m", "dsim.selftest",
                                "digest", prop, str(n)], cwd=VERIF, env=env,
                               capture_output=True, text=True)
            line = [l for l in p.stdout.splitlines()
                    if l.startswith("DIGEST")]
            seen[(hs, procs)] = line[0] if line else \
                "ERROR " + p.stderr[-300:]
        ok = len(set(seen.values())) == 1 and \
            not any(v.startswith("ERROR") for v in seen.values())
        rows.append({"property": prop, "runs": n, "ok": ok,
                     "digests": {f"hashseed={k[0]},procs={k[1]}": v
                                 for k, v in seen.items()}})
        print(("ok   " if ok else "DIFF ") + prop, n,
              sorted(set(seen.values()))[:2])
        bad += 0 if ok else 1
    if only is None:
        core.write_json(os.path.join(VERIF, "evidence", "selftest",
                                     "determinism.json"),
                        {"rows": rows, "all_ok": bad == 0})
    return 1 if bad else 0


if __name__ == "__main__":
    sys.exit(main(sys.argv[1:]))
