"""docsim - the stored scenario document as the fault surface.

C17: random valid documents are written to disk, loaded through the public
     API and compared field by field with our own reading of the text; then
     short simulated episodes check that the loaded environment enforces
     what the file says.
C18: faults on the stored document: every operator of the corruption
     catalogue (one documented rule broken each) applied to valid base
     documents, plus torn writes; the loader must raise.
"""
import copy
import os

import yaml

from . import core, configs, docgen, envsim, model, reader, seams
from .core import Violation
from .docgen import A, Q
from .envsim import EnvSim, SutError

REQUIRED = ["subnets", "topology", "sensitive_hosts", "os", "services",
            "processes", "exploits", "privilege_escalation",
            "service_scan_cost", "os_scan_cost", "subnet_scan_cost",
            "process_scan_cost", "host_configurations", "firewall"]


def base_doc(rng, idx):
    """(doc, label): shipped documents first, then random ones."""
    if idx < len(configs.SHIPPED):
        name = configs.SHIPPED[idx]
        return yaml.safe_load(configs.shipped_text(name)), name
    return docgen.gen_doc(rng, big=rng.random() < 0.05), "random"


def load_text(text, tag, loader=None):
    import nasim
    path = configs.write_doc(text, tag)
    if loader is not None:
        # one ScenarioLoader object kept by the caller and used for every
        # file
        return loader.load(path), path
    return nasim.load_scenario(path), path


# simulated file time: both versions of a file that is rewritten in place are
# stamped inside one second (what a fast rewrite, or a file system with coarse
# timestamps, produces)
FILE_T0 = 1700000000.25


def pad_to(text, n):
    """text padded with a trailing YAML comment to n bytes (n >= len)."""
    need = n - len(text.encode())
    if need <= 0:
        return text
    if need == 1:
        return text + "\n"
    return text + "\n#" + "p" * (need - 2)


def load_rewritten(first, second, tag, loader=None):
    """Storage fault 'rewritten in place': `first` is written to the path and
    loaded (whatever happens is ignored), then the file is overwritten with
    `second` - same path, same size, same second - and loaded for real."""
    import os
    import nasim
    n = max(len(first.encode()), len(second.encode()))
    first, second = pad_to(first, n), pad_to(second, n)
    path = configs.write_doc(first, tag)
    os.utime(path, (FILE_T0, FILE_T0))
    load = loader.load if loader is not None else nasim.load_scenario
    try:
        load(path)
    except Exception:
        pass
    with open(path, "w") as f:
        f.write(second)
    os.utime(path, (FILE_T0 + 0.5, FILE_T0 + 0.5))
    return load(path), path


def enlarge(doc):
    """A bigger network that contains every address of `doc` and more: two
    more hosts in every subnet and one more subnet (three hosts) behind the
    first one."""
    d = copy.deepcopy(doc)
    n = len(d["subnets"])
    hosts = d["host_configurations"]
    tmpl = copy.deepcopy(next(iter(hosts.values())))
    tmpl.pop("firewall", None)
    tmpl.pop("value", None)
    sizes = [int(x) + 2 for x in d["subnets"]] + [3]
    have = {docgen.reader_addr(k) for k in hosts}
    for s in range(1, n + 2):
        for h in range(sizes[s - 1]):
            if (s, h) not in have:
                hosts[docgen.A(s, h)] = copy.deepcopy(tmpl)
    d["subnets"] = sizes
    T = [list(r) + [0] for r in d["topology"]]
    T.append([0] * (n + 2))
    T[n + 1][n + 1] = 1
    T[1][n + 1] = T[n + 1][1] = 1
    d["topology"] = T
    d["firewall"][docgen.A(1, n + 1)] = list(d["services"])
    d["firewall"][docgen.A(n + 1, 1)] = list(d["services"])
    return d


# ==========================================================================
# C17
# ==========================================================================
def c17_fields(scen, cfg):
    def bad(what, got, want):
        raise Violation("C17.fields", f"loaded scenario differs from the "
                        f"file: {what}", got=core.jsonable(got),
                        expected=core.jsonable(want))
    if list(scen.subnets) != cfg.subnets:
        bad("subnet sizes (with the internet entry)", scen.subnets,
            cfg.subnets)
    if [list(r) for r in scen.topology] != cfg.topology:
        bad("topology", scen.topology, cfg.topology)
    for name, got, want in (("os", scen.os, cfg.os),
                            ("services", scen.services, cfg.services),
                            ("processes", scen.processes, cfg.processes)):
        if list(got) != want:
            bad(name, got, want)
    if list(scen.hosts.keys()) != cfg.order or \
            list(scen.address_space) != cfg.order:
        bad("host addresses / order", list(scen.hosts.keys()), cfg.order)
    for a in cfg.order:
        h, src = scen.hosts[a], cfg.hosts[a]
        if tuple(h.address) != a:
            bad(f"address of host {a}", h.address, a)
        if {k: bool(v) for k, v in h.os.items()} != \
                {o: o == src["os"] for o in cfg.os}:
            bad(f"OS of host {a}", h.os, src["os"])
        if {k: bool(v) for k, v in h.services.items()} != \
                {s: s in src["services"] for s in cfg.services}:
            bad(f"services of host {a}", h.services, src["services"])
        if {k: bool(v) for k, v in h.processes.items()} != \
                {p: p in src["processes"] for p in cfg.processes}:
            bad(f"processes of host {a}", h.processes, src["processes"])
        if not model.feq(h.value, src["value"]):
            bad(f"value of host {a}", h.value, src["value"])
        fw = {k: set(v) for k, v in h.firewall.items()}
        if fw != src["firewall"] or \
                any(not isinstance(k, tuple) for k in h.firewall):
            bad(f"deny-list of host {a} (keyed by address)", h.firewall,
                src["firewall"])
    if {k: set(v) for k, v in scen.firewall.items()} != cfg.firewall or \
            any(not isinstance(k, tuple) for k in scen.firewall) or \
            any(len(v) != len(set(v)) for v in scen.firewall.values()):
        bad("subnet firewall allow-lists", scen.firewall, cfg.firewall)
    if {tuple(k): float(v) for k, v in scen.sensitive_hosts.items()} != \
            cfg.sensitive or list(scen.sensitive_addresses) != \
            list(cfg.sensitive):
        bad("sensitive hosts", scen.sensitive_hosts, cfg.sensitive)
    if list(scen.exploits) != list(cfg.exploits):
        bad("exploit names", list(scen.exploits), list(cfg.exploits))
    for n, e in cfg.exploits.items():
        g = scen.exploits[n]
        if (g["service"], g["os"], int(g["access"])) != \
                (e["service"], e["os"], e["access"]) or \
                not model.feq(g["prob"], e["prob"]) or \
                not model.feq(g["cost"], e["cost"]):
            bad(f"exploit {n}", g, e)
    if list(scen.privescs) != list(cfg.privescs):
        bad("escalation names", list(scen.privescs), list(cfg.privescs))
    for n, e in cfg.privescs.items():
        g = scen.privescs[n]
        if (g["process"], g["os"], int(g["access"])) != \
                (e["process"], e["os"], e["access"]) or \
                not model.feq(g["prob"], e["prob"]) or \
                not model.feq(g["cost"], e["cost"]):
            bad(f"escalation {n}", g, e)
    for k, got in (("service_scan", scen.service_scan_cost),
                   ("os_scan", scen.os_scan_cost),
                   ("subnet_scan", scen.subnet_scan_cost),
                   ("process_scan", scen.process_scan_cost)):
        if got != cfg.scan_cost[k]:
            bad(f"{k} cost", got, cfg.scan_cost[k])
    if scen.step_limit != cfg.step_limit:
        bad("step limit", scen.step_limit, cfg.step_limit)


def c17_run_one(prop, tier, root, idx, extra):
    seed = core.run_seed(prop, tier, root, idx)
    rng = core.stream(seed, "cfg")
    doc, label = base_doc(rng, idx)
    if label == "random":
        text = docgen.emit(doc, rng)
    else:
        text = configs.shipped_text(label)
    trace = {"seed": seed, "text": text, "label": label}
    fx = core.stream(seed, "faults2")
    if fx.random() < 0.15:
        # storage fault: another valid version of the file (other numbers,
        # possibly other name order) was at the same path a moment ago
        v = configs.variant_spec({"kind": "yaml", "text": text}, fx, "doc",
                                 keep_order=False)
        if v is not None:
            trace["rewrite"] = v["text"]
    if fx.random() < 0.15:
        # an environment of a sibling document (same names, possibly listed
        # in another order) was built and used earlier in the process
        v = configs.variant_spec({"kind": "yaml", "text": text}, fx, "doc",
                                 keep_order=False)
        if v is not None:
            trace["predecessor"] = {"text": v["text"],
                                    "seed": fx.randint(0, 2 ** 31 - 1)}
    if fx.random() < 0.2:
        # an earlier load in this process was refused: a sibling of this
        # document (all optional sections present) that breaks one rule of
        # the C18 catalogue
        try:
            d = yaml.safe_load(text)
            d["step_limit"] = d.get("step_limit") or fx.choice([7, 40, 300])
            names = sorted(OPERATORS)
            fx.shuffle(names)
            for name in names[:8]:
                d2 = copy.deepcopy(d)
                try:
                    if OPERATORS[name](d2, fx):
                        trace["refused_before"] = {"fault": name,
                                                   "text": docgen.emit(d2)}
                        break
                except (KeyError, IndexError, ValueError):
                    continue
        except Exception:
            pass
    return c17_execute(trace, tier, {"idx": idx, "seed": seed}, gen=True)


def c17_registered(label, cfg, counters):
    """The Gymnasium ids registered for a shipped file mean that file: same
    scenario fields, and no wrapper that ends episodes before the file's own
    step limit."""
    import gymnasium as gym
    ids = [k for k, v in gym.envs.registry.items()
           if "nasim" in str(v.entry_point)
           and (v.kwargs or {}).get("scenario") == label]
    for gid in sorted(ids)[:4]:
        spec = gym.envs.registry[gid]
        try:
            env = gym.make(gid)
        except Exception as e:
            raise Violation("C17.accept", "a registered Gymnasium id of a "
                            "shipped file cannot be made", id=gid,
                            error=f"{type(e).__name__}: {e}"[:300])
        counters.hit("probe.registered_id_made")
        c17_fields(env.unwrapped.scenario, cfg)
        limits = [spec.max_episode_steps,
                  getattr(env.spec, "max_episode_steps", None)]
        w = env
        while hasattr(w, "env"):
            if type(w).__name__ == "TimeLimit":
                limits.append(getattr(w, "_max_episode_steps", None))
            w = w.env
        for lim in limits:
            if lim is not None and (cfg.step_limit is None
                                    or lim != cfg.step_limit):
                raise Violation(
                    "C17.fields", "loaded scenario differs from the file: "
                    "the registered Gymnasium environment ends episodes "
                    "after another number of steps than the file's step "
                    "limit", id=gid, wrapper_limit=lim,
                    file_step_limit=cfg.step_limit)
        env.close()


def c17_execute(trace, tier, res, gen=False):
    import nasim
    seed, text = trace["seed"], trace["text"]
    counters = core.Counters()
    res["trace"] = trace
    res["ops"] = res["steps"] = 0
    sims = []
    episodes = [] if gen else (trace.get("episodes") or [])
    try:
        cfg = reader.from_yaml_text(text, name="doc")
        if trace.get("predecessor"):
            counters.hit("fault.foreign_activity.predecessor_env")
            pr = core.stream(trace["predecessor"]["seed"], "pred")
            mt = pr.choice(envsim.MODE_TRIPLES)
            envsim.play_sibling(
                {"kind": "yaml", "text": trace["predecessor"]["text"],
                 "name": "doc"},
                {"fully_obs": mt[0], "flat_actions": mt[1],
                 "flat_obs": mt[2]}, pr)
            seams.collect_now()
        if trace.get("refused_before"):
            counters.hit("fault.earlier_load_refused")
            try:
                load_text(trace["refused_before"]["text"], "c17bad")
                counters.hit("broken_sibling_accepted")
            except Exception:
                pass
        try:
            if trace.get("rewrite"):
                counters.hit("fault.file_rewritten_in_place")
                scen, path = load_rewritten(trace["rewrite"], text, "c17")
            else:
                path = configs.write_doc(text, "c17")
                scen = nasim.load_scenario(path)
        except Exception as e:
            raise Violation("C17.accept", "a document in the documented "
                            "format was refused",
                            error=f"{type(e).__name__}: {e}"[:400])
        counters.hit("probe.accepted")
        for n, e in cfg.exploits.items():
            if e["prob"] == 1.0:
                counters.hit("probe.exploit_prob_1")
        if not cfg.privescs:
            counters.hit("probe.empty_escalations")
        if any(h["value"] < 0 for h in cfg.hosts.values()):
            counters.hit("probe.negative_host_value")
        if cfg.step_limit is None:
            counters.hit("probe.no_step_limit")
        if any(h["firewall"] for h in cfg.hosts.values()):
            counters.hit("probe.host_deny_lists")
        c17_fields(scen, cfg)
        if trace.get("label") in configs.SHIPPED:
            c17_registered(trace["label"], cfg, counters)
        # episodes on nasim.load(path) with the model built from the file
        n_ep = 2 if gen else len(episodes)
        for ep in range(n_ep):
            rng = core.stream(seed, f"ep{ep}")
            mt = rng.choice(envsim.MODE_TRIPLES)
            modes = {"fully_obs": mt[0], "flat_actions": mt[1],
                     "flat_obs": mt[2]}
            if not gen:
                modes = episodes[ep]["modes"]
            try:
                env = nasim.load(path, **modes)
            except Exception as e:
                raise Violation("C17.accept", "nasim.load refused / failed "
                                "on a valid document",
                                error=f"{type(e).__name__}: {e}"[:400])
            sim = EnvSim({"kind": "yaml", "text": text}, modes,
                         ["C01", "C02", "C05", "C06", "C07"], seed, tier,
                         scenario=env.scenario, cfg=cfg, env=env)
            sims.append(sim)
            try:
                if gen:
                    sw = envsim.Swarm(core.stream(seed, f"swarm{ep}"), [])
                    sw.n_ops = 25
                    sw.p_gstep = min(sw.p_gstep, 0.1)
                    sw.p_productive = max(sw.p_productive, 0.5)
                    try:
                        sim.generate(core.stream(seed, f"wl{ep}"),
                                     core.stream(seed, f"fl{ep}"), sw)
                    finally:
                        episodes.append({"modes": modes, "ops": sim.ops})
                else:
                    for op in episodes[ep]["ops"]:
                        sim.exec_op(dict(op))
            except Violation as v:
                raise Violation("C17.enforced", f"{v.clause}: {v.msg}",
                                inner_clause=v.clause, **v.detail)
            res["ops"] += len(sim.ops)
            res["steps"] += sim.steps_total
            res["progress"] = res.get("progress", 0) + sim.progress
            counters.merge(sim.counters)
        if gen:
            trace["episodes"] = episodes
        # doc_flip faults that leave the document valid: the loader must
        # return what the *damaged* file says
        flips = trace.get("flips")
        if flips is None:
            flips = flip_cases(text, core.stream(seed, "flips"),
                               12 if tier == "quick" else 40)
            trace["flips"] = flips
        for fc in flips:
            try:
                dd = yaml.safe_load(fc["text"])
            except yaml.YAMLError:
                continue
            if broken_rule(dd) is not None or ambiguous(dd):
                continue
            try:
                cfg2 = reader.from_yaml_text(fc["text"], name="doc")
            except Exception:
                continue          # not readable by our reader: no verdict
            path2 = configs.write_doc(fc["text"], "c17flip")
            try:
                scen2 = nasim.load_scenario(path2)
            except Exception:
                counters.hit("flip.refused_unclassified")
                continue          # refused: no verdict (C18 owns rejection)
            counters.hit("fault.doc_flip_still_valid")
            try:
                c17_fields(scen2, cfg2)
            except Violation as v:
                v.detail["flip"] = {k: fc[k] for k in ("at", "from", "to")}
                raise
    except Violation as v:
        res["violation"] = v.to_json()
        if gen:
            trace["episodes"] = episodes
    except SutError as e:
        res["sut_error"] = str(e)
    finally:
        for s in sims:
            s.close()
    res["counters"] = dict(counters)
    res["nontrivial"] = True
    res["case_digest"] = core.digest(text)
    return res


# ==========================================================================
# C18 corruption catalogue
# ==========================================================================
def _hosts(doc):
    return list(doc["host_configurations"].keys())


def _addr(k):
    return reader.parse_addr(k)


def _pick(rng, seq):
    seq = list(seq)
    return rng.choice(seq) if seq else None


def _sens_keys(doc):
    return list(doc["sensitive_hosts"].keys())


def operators():
    """name -> function(doc, rng) -> True if applied (doc mutated in place),
    False if the base document has no eligible site."""
    ops = {}

    def op(name):
        def deco(f):
            ops[name] = f
            return f
        return deco

    # 1. sections ---------------------------------------------------------
    for key in REQUIRED:
        def f(doc, rng, key=key):
            del doc[key]
            return True
        ops[f"section.delete.{key}"] = f

    @op("section.unknown_key")
    def _(doc, rng):
        doc["bogus_section"] = 1
        return True

    def retype(key, val):
        def f(doc, rng):
            doc[key] = copy.deepcopy(val)
            return True
        return f
    ops["section.type.subnets_dict"] = retype("subnets", {"a": 1})
    ops["section.type.subnets_str"] = retype("subnets", Q("1, 1"))
    ops["section.type.topology_str"] = retype("topology", Q("full"))
    ops["section.type.sensitive_list"] = retype("sensitive_hosts", [1, 2])
    ops["section.type.os_str"] = retype("os", Q("linux"))
    ops["section.type.services_dict"] = retype("services", {"ssh": 1})
    ops["section.type.processes_str"] = retype("processes", Q("tomcat"))
    ops["section.type.exploits_list"] = retype("exploits", [1])
    ops["section.type.privescs_list"] = retype("privilege_escalation", [1])
    ops["section.type.scan_cost_str"] = retype("os_scan_cost", Q("1"))
    ops["section.type.hosts_list"] = retype("host_configurations", [1])
    ops["section.type.firewall_list"] = retype("firewall", [1])
    ops["section.type.step_limit_float"] = retype("step_limit", 10.5)
    ops["section.type.step_limit_str"] = retype("step_limit", Q("100"))

    # 2. subnets ----------------------------------------------------------
    @op("subnets.empty")
    def _(doc, rng):
        doc["subnets"] = []
        return True

    def subnet_entry(val):
        def f(doc, rng):
            i = rng.randrange(len(doc["subnets"]))
            doc["subnets"][i] = val
            return True
        return f
    ops["subnets.zero"] = subnet_entry(0)
    ops["subnets.negative"] = subnet_entry(-1)
    ops["subnets.float"] = subnet_entry(1.5)
    ops["subnets.string"] = subnet_entry(Q("2"))

    # 3. topology ---------------------------------------------------------
    @op("topology.few_rows")
    def _(doc, rng):
        doc["topology"] = doc["topology"][:-1]
        return True

    @op("topology.short_row")
    def _(doc, rng):
        i = rng.randrange(len(doc["topology"]))
        doc["topology"][i] = doc["topology"][i][:-1]
        return True

    @op("topology.row_not_list")
    def _(doc, rng):
        i = rng.randrange(len(doc["topology"]))
        doc["topology"][i] = 1
        return True

    def topo_entry(val):
        def f(doc, rng):
            i = rng.randrange(len(doc["topology"]))
            j = rng.randrange(len(doc["topology"][i]))
            doc["topology"][i][j] = val
            return True
        return f
    ops["topology.entry_2"] = topo_entry(2)
    ops["topology.entry_neg"] = topo_entry(-1)
    ops["topology.entry_str"] = topo_entry(Q("1"))

    # 4. name lists -------------------------------------------------------
    for key in ("os", "services", "processes"):
        def empty(doc, rng, key=key):
            doc[key] = []
            return True

        def dup(doc, rng, key=key):
            doc[key] = list(doc[key]) + [rng.choice(doc[key])]
            return True
        ops[f"{key}.empty"] = empty
        ops[f"{key}.duplicate"] = dup

    @op("processes.empty_consistent")
    def _(doc, rng):
        # the empty list is the only rule broken: nothing refers to a process
        doc["processes"] = []
        doc["privilege_escalation"] = {}
        for h in doc["host_configurations"].values():
            h["processes"] = []
        return True

    @op("services.duplicate_only")
    def _(doc, rng):
        doc["services"] = list(doc["services"]) + [doc["services"][-1]]
        return True

    # 5. sensitive hosts ---------------------------------------------------
    @op("sensitive.empty")
    def _(doc, rng):
        doc["sensitive_hosts"] = {}
        return True

    def sens_readdr(fn):
        def f(doc, rng):
            k = rng.choice(_sens_keys(doc))
            v = doc["sensitive_hosts"].pop(k)
            doc["sensitive_hosts"][fn(doc, _addr(k))] = v
            return True
        return f
    ops["sensitive.subnet_0"] = sens_readdr(lambda d, a: A(0, 0))
    ops["sensitive.subnet_n_plus_1"] = sens_readdr(
        lambda d, a: A(len(d["subnets"]) + 1, 0))
    ops["sensitive.subnet_far"] = sens_readdr(lambda d, a: A(99, 0))
    ops["sensitive.host_out_of_range"] = sens_readdr(
        lambda d, a: A(a[0], d["subnets"][a[0] - 1]))
    ops["sensitive.host_negative"] = sens_readdr(lambda d, a: A(a[0], -1))

    @op("sensitive.duplicate_spelling")
    def _(doc, rng):
        k = rng.choice(_sens_keys(doc))
        a = _addr(k)
        for alt in (f"({a[0]},{a[1]})", f"({a[0]}, {a[1]})",
                    f"( {a[0]}, {a[1]} )"):
            if alt not in doc["sensitive_hosts"]:
                doc["sensitive_hosts"][alt] = doc["sensitive_hosts"][k]
                return True
        return False

    def sens_value(val):
        def f(doc, rng):
            k = rng.choice(_sens_keys(doc))
            doc["sensitive_hosts"][k] = val
            doc["host_configurations"].get(A(*_addr(k)), {}).pop("value",
                                                                 None)
            return True
        return f
    ops["sensitive.value_zero"] = sens_value(0)
    ops["sensitive.value_negative"] = sens_value(-5)
    ops["sensitive.value_string"] = sens_value(Q("high"))

    # 6. exploits / escalations --------------------------------------------
    for sect, tag, fields in (
            ("exploits", "exploit", ["service", "os", "prob", "cost",
                                     "access"]),
            ("privilege_escalation", "privesc", ["process", "os", "prob",
                                                 "cost", "access"])):
        for fld in fields:
            def miss(doc, rng, sect=sect, fld=fld):
                if not doc[sect]:
                    return False
                n = rng.choice(list(doc[sect]))
                del doc[sect][n][fld]
                return True
            ops[f"{tag}.missing_{fld}"] = miss

        def setter(fld, val, sect=sect):
            def f(doc, rng):
                if not doc[sect]:
                    return False
                n = rng.choice(list(doc[sect]))
                doc[sect][n][fld] = val
                return True
            return f
        first = fields[0]
        ops[f"{tag}.unknown_{first}"] = setter(first, "no_such_name")
        ops[f"{tag}.unknown_os"] = setter("os", "no_such_os")
        ops[f"{tag}.prob_above_1"] = setter("prob", 1.5)
        ops[f"{tag}.prob_negative"] = setter("prob", -0.1)
        ops[f"{tag}.cost_zero"] = setter("cost", 0)
        ops[f"{tag}.cost_negative"] = setter("cost", -1)
        ops[f"{tag}.access_admin"] = setter("access", "admin")
        ops[f"{tag}.access_0"] = setter("access", 0)
        ops[f"{tag}.access_3"] = setter("access", 3)

        def notmap(doc, rng, sect=sect):
            if not doc[sect]:
                return False
            n = rng.choice(list(doc[sect]))
            doc[sect][n] = Q("broken")
            return True
        ops[f"{tag}.not_a_mapping"] = notmap

    # 7. scan costs ---------------------------------------------------------
    for key in ("service_scan_cost", "os_scan_cost", "subnet_scan_cost",
                "process_scan_cost"):
        def neg(doc, rng, key=key):
            doc[key] = rng.choice([-1, -0.5])
            return True
        ops[f"{key}.negative"] = neg

    # 8. host configurations -------------------------------------------------
    @op("host.missing")
    def _(doc, rng):
        del doc["host_configurations"][rng.choice(_hosts(doc))]
        return True

    @op("host.superfluous")
    def _(doc, rng):
        k = rng.choice(_hosts(doc))
        a = _addr(k)
        doc["host_configurations"][A(a[0], doc["subnets"][a[0] - 1])] = \
            copy.deepcopy(doc["host_configurations"][k])
        doc["host_configurations"][A(a[0], doc["subnets"][a[0] - 1])].pop(
            "value", None)
        return True

    @op("host.superfluous_other_spelling")
    def _(doc, rng):
        k = rng.choice(_hosts(doc))
        a = _addr(k)
        extra = copy.deepcopy(doc["host_configurations"][k])
        doc["host_configurations"][f"({a[0]},{a[1]})"] = extra
        return True

    @op("host.readdressed_outside")
    def _(doc, rng):
        sens = {_addr(x) for x in doc["sensitive_hosts"]}
        cands = [k for k in _hosts(doc) if _addr(k) not in sens]
        k = _pick(rng, cands or _hosts(doc))
        doc["host_configurations"] = {
            (A(9, 9) if kk == k else kk): v
            for kk, v in doc["host_configurations"].items()}
        return True

    def host_list(field, mode):
        def f(doc, rng):
            k = rng.choice(_hosts(doc))
            h = doc["host_configurations"][k]
            if mode == "unknown":
                h[field] = list(h[field]) + ["no_such_name"]
            else:
                if not h[field]:
                    cands = [kk for kk in _hosts(doc)
                             if doc["host_configurations"][kk][field]]
                    if not cands:
                        return False
                    h = doc["host_configurations"][rng.choice(cands)]
                h[field] = list(h[field]) + [rng.choice(h[field])]
            return True
        return f
    ops["host.unknown_service"] = host_list("services", "unknown")
    ops["host.duplicate_service"] = host_list("services", "dup")
    ops["host.unknown_process"] = host_list("processes", "unknown")
    ops["host.duplicate_process"] = host_list("processes", "dup")

    @op("host.unknown_os")
    def _(doc, rng):
        doc["host_configurations"][rng.choice(_hosts(doc))]["os"] = \
            "no_such_os"
        return True

    def case_variant(name, defined):
        for v in (name.upper(), name.capitalize(), name.lower(),
                  name.swapcase()):
            if v != name and v not in defined:
                return v
        return None

    @op("host.os_case_variant")
    def _(doc, rng):
        # names are case sensitive: 'Linux' is not 'linux'
        h = doc["host_configurations"][rng.choice(_hosts(doc))]
        v = case_variant(str(h["os"]), doc["os"])
        if v is None:
            return False
        h["os"] = v
        return True

    @op("host.service_case_variant")
    def _(doc, rng):
        h = doc["host_configurations"][rng.choice(_hosts(doc))]
        if not h["services"]:
            return False
        v = case_variant(str(h["services"][0]), doc["services"])
        if v is None:
            return False
        h["services"] = [v] + list(h["services"][1:])
        return True

    def action_os_case(sect):
        def f(doc, rng):
            cands = [n for n, e in (doc[sect] or {}).items()
                     if str(e.get("os")).lower() != "none"]
            if not cands:
                return False
            e = doc[sect][rng.choice(cands)]
            v = case_variant(str(e["os"]), doc["os"])
            if v is None or v.lower() == "none":
                return False
            e["os"] = v
            return True
        return f
    ops["exploit.os_case_variant"] = action_os_case("exploits")
    ops["privesc.os_case_variant"] = action_os_case("privilege_escalation")

    @op("firewall.extra_entry_unknown_service")
    def _(doc, rng):
        # an entry nobody needs (a subnet to itself, or two subnets that are
        # not connected) is still a firewall setting and must be valid
        n = len(doc["subnets"])
        pairs = [(i, i) for i in range(1, n + 1)] + [
            (i, j) for i in range(1, n + 1) for j in range(1, n + 1)
            if i != j and not doc["topology"][i][j]]
        pairs = [pq for pq in pairs if A(*pq) not in doc["firewall"]]
        if not pairs:
            return False
        doc["firewall"][A(*rng.choice(pairs))] = \
            list(doc["services"][:1]) + ["no_such_name"]
        return True

    @op("host.os_none")
    def _(doc, rng):
        # 'none' means "any OS" for exploits only: a host must run a listed OS
        doc["host_configurations"][rng.choice(_hosts(doc))]["os"] = \
            rng.choice(["none", "None", "NONE"])
        return True

    for fld in ("os", "services", "processes"):
        def miss(doc, rng, fld=fld):
            del doc["host_configurations"][rng.choice(_hosts(doc))][fld]
            return True
        ops[f"host.missing_{fld}"] = miss

    def host_fw(val_fn):
        def f(doc, rng):
            k = rng.choice(_hosts(doc))
            v = val_fn(doc, rng, k)
            if v is None:
                return False
            doc["host_configurations"][k]["firewall"] = v
            return True
        return f
    ops["host.firewall_not_mapping"] = host_fw(
        lambda d, r, k: [d["services"][0]])
    ops["host.firewall_bad_address"] = host_fw(
        lambda d, r, k: {A(99, 0): [d["services"][0]]})
    ops["host.firewall_host_out_of_range"] = host_fw(
        lambda d, r, k: {A(1, d["subnets"][0]): [d["services"][0]]})
    ops["host.firewall_unparsable_address"] = host_fw(
        lambda d, r, k: {"not an address": [d["services"][0]]})
    ops["host.firewall_unknown_service"] = host_fw(
        lambda d, r, k: {r.choice(_hosts(d)): ["no_such_name"]})
    ops["host.firewall_duplicate_service"] = host_fw(
        lambda d, r, k: {r.choice(_hosts(d)): [d["services"][0],
                                               d["services"][0]]})
    ops["host.firewall_value_not_list"] = host_fw(
        lambda d, r, k: {r.choice(_hosts(d)): Q(d["services"][0])})

    @op("host.value_string")
    def _(doc, rng):
        sens = {_addr(x) for x in doc["sensitive_hosts"]}
        cands = [k for k in _hosts(doc) if _addr(k) not in sens]
        k = _pick(rng, cands)
        if k is None:
            return False
        doc["host_configurations"][k]["value"] = Q("big")
        return True

    @op("host.sensitive_value_contradiction")
    def _(doc, rng):
        k = rng.choice(_sens_keys(doc))
        hk = A(*_addr(k))
        if hk not in doc["host_configurations"]:
            return False
        v = doc["sensitive_hosts"][k]
        doc["host_configurations"][hk]["value"] = v + rng.choice([1, 10,
                                                                  -0.5])
        return True

    # 9. subnet firewall ------------------------------------------------------
    @op("firewall.rule_missing")
    def _(doc, rng):
        if not doc["firewall"]:
            return False
        del doc["firewall"][rng.choice(list(doc["firewall"]))]
        return True

    def fw_rule(val_fn):
        def f(doc, rng):
            if not doc["firewall"]:
                return False
            k = rng.choice(list(doc["firewall"]))
            doc["firewall"][k] = val_fn(doc, rng, doc["firewall"][k])
            return True
        return f
    ops["firewall.rule_not_list_str"] = fw_rule(
        lambda d, r, old: Q(d["services"][0]))
    ops["firewall.rule_not_list_map"] = fw_rule(
        lambda d, r, old: {d["services"][0]: 1})
    ops["firewall.duplicate_service"] = fw_rule(
        lambda d, r, old: [d["services"][0], d["services"][0]])
    ops["firewall.unknown_service"] = fw_rule(
        lambda d, r, old: list(old) + ["no_such_name"])

    # 10. step limit -----------------------------------------------------------
    ops["step_limit.zero"] = retype("step_limit", 0)
    ops["step_limit.negative"] = retype("step_limit", -10)
    return ops


OPERATORS = operators()


def c18_run_one(prop, tier, root, idx, extra):
    seed = core.run_seed(prop, tier, root, idx)
    rng = core.stream(seed, "cfg")
    doc, label = base_doc(rng, idx)
    fl = core.stream(seed, "faults")
    fx = core.stream(seed, "faults2")
    bigger_broken = None
    try:
        big = enlarge(doc)
        big["step_limit"] = -10          # refused at the very end
        bigger_broken = docgen.emit(big)
    except Exception:
        bigger_broken = None
    cases = []
    for name in sorted(OPERATORS):
        d = copy.deepcopy(doc)
        try:
            applied = OPERATORS[name](d, fl)
        except (KeyError, IndexError, ValueError):
            applied = False
        if applied:
            case = {"fault": name, "text": docgen.emit(d)}
            r = fx.random()
            if r < 0.12:
                # the valid document is on disk (and was loaded) first; the
                # broken one replaces it in place
                case["rewrite_of_base"] = True
            elif r < 0.24 and bigger_broken is not None:
                # a bigger network's document was refused just before
                case["after_refused"] = bigger_broken
            cases.append(case)
    base_text = docgen.emit(doc)
    # torn writes of the valid document
    n_torn = 4 if tier == "quick" else 12
    for _ in range(n_torn):
        cut = fl.randrange(1, max(2, len(base_text) - 1))
        cases.append({"fault": "doc_torn", "text": base_text[:cut],
                      "cut": cut})
    cases.extend(flip_cases(base_text, fl, 40 if tier == "quick" else 150))
    trace = {"seed": seed, "label": label, "base": base_text,
             "ops": cases}
    return c18_execute(trace, tier, {"idx": idx, "seed": seed})


def classify_torn(text):
    """Narrow detector for torn documents: 'must_raise' only when the damage
    certainly breaks a catalogue rule (a required section is missing or the
    document is not a mapping / not parsable)."""
    try:
        d = yaml.safe_load(text)
    except yaml.YAMLError:
        return "unparsable"
    if not isinstance(d, dict):
        return "not_a_mapping"
    if any(k not in d for k in REQUIRED):
        return "section_missing"
    return None


def c18_execute(trace, tier, res):
    import nasim
    counters = core.Counters()
    res["trace"] = trace
    res["ops"] = res["steps"] = 0
    loader = None
    if core.h64(f"{trace['seed']}|shared-loader") % 2 == 0:
        from nasim.scenarios import ScenarioLoader
        loader = ScenarioLoader()
        counters.hit("fault.loader_instance_reused")
    try:
        try:
            load_text(trace["base"], "c18base", loader)
        except Exception as e:
            # the base must be valid; if the loader refuses it that is C17's
            # business - no verdict here
            res["sut_error"] = f"base refused: {type(e).__name__}: {e}"[:300]
            res["counters"] = dict(counters)
            return res
        for case in trace["ops"]:
            fault = case["fault"]
            if fault == "doc_torn":
                cls = classify_torn(case["text"])
                if cls is None:
                    counters.hit("torn.unclassified")
                    continue
                counters.hit("fault.doc_torn." + cls)
            elif fault == "doc_flip":
                try:
                    dd = yaml.safe_load(case["text"])
                except yaml.YAMLError:
                    counters.hit("flip.unparsable")
                    continue
                rule = broken_rule(dd)
                if rule is None:
                    # still valid as far as the narrow detector can tell:
                    # C17 scores these (the loader must return what the
                    # damaged file says); no verdict here
                    counters.hit("flip.still_valid_or_unclassified")
                    continue
                case["rule"] = rule
                counters.hit("fault.doc_flip")
                counters.hit("fliprule." + rule)
            else:
                counters.hit("fault.doc_rule_break")
                counters.hit("rule." + fault.split(".")[0])
            res["ops"] += 1
            try:
                if case.get("after_refused"):
                    counters.hit("fault.earlier_load_refused")
                    try:
                        load_text(case["after_refused"], "c18big", loader)
                        counters.hit("bigger_broken_document_accepted")
                    except Exception:
                        pass
                if case.get("rewrite_of_base"):
                    counters.hit("fault.file_rewritten_in_place")
                    load_rewritten(trace["base"], case["text"], "c18rw",
                                   loader)
                else:
                    load_text(case["text"], "c18", loader)
            except Exception:
                counters.hit("rejected")
                continue
            raise Violation("C18.reject", "a document that breaks a "
                            "documented rule was loaded without an error",
                            fault=fault, base=trace.get("label"),
                            document=case["text"][:3000])
    except Violation as v:
        res["violation"] = v.to_json()
    res["counters"] = dict(counters)
    res["nontrivial"] = True
    res["case_digest"] = core.digest(trace["base"])
    res["steps"] = res["ops"]
    return res


# ==========================================================================
# narrow validator for damaged documents (doc_flip faults)
# ==========================================================================
def broken_rule(d):
    """Name of a catalogue rule the parsed document certainly breaks, or
    None.  Deliberately narrow: it only reports what the C18 statement
    lists, and only when it is sure."""
    def num(x):
        return isinstance(x, (int, float)) and not isinstance(x, bool)
    if not isinstance(d, dict):
        return "not_a_mapping"
    for k in REQUIRED:
        if k not in d:
            return "section_missing"
    for k in d:
        if k not in REQUIRED and k != "step_limit":
            return "section_unknown"
    types = {"subnets": list, "topology": list, "sensitive_hosts": dict,
             "os": list, "services": list, "processes": list,
             "exploits": dict, "privilege_escalation": dict,
             "host_configurations": dict, "firewall": dict}
    for k, t in types.items():
        if not isinstance(d[k], t):
            return "section_mistyped"
    for k in ("service_scan_cost", "os_scan_cost", "subnet_scan_cost",
              "process_scan_cost"):
        if not num(d[k]):
            return "section_mistyped"
        if d[k] < 0:
            return "scan_cost_negative"
    subs = d["subnets"]
    if not subs or any(type(s) is not int or s <= 0 for s in subs):
        return "subnets"
    n = len(subs)
    T = d["topology"]
    if len(T) != n + 1:
        return "topology_shape"
    for row in T:
        if not isinstance(row, list) or len(row) != n + 1:
            return "topology_shape"
        for c in row:
            if type(c) is not int or c not in (0, 1):
                return "topology_entry"
    for k in ("os", "services", "processes"):
        lst = d[k]
        try:
            if not lst or len(set(lst)) != len(lst):
                return k + "_list"
        except TypeError:
            return None
        if any(not isinstance(x, str) for x in lst):
            return None        # unusual names: no verdict
    oss, srvs, procs = d["os"], d["services"], d["processes"]

    def addr(k):
        try:
            return reader.parse_addr(k)
        except Exception:
            return None

    def valid_addr(a):
        return a is not None and 1 <= a[0] <= n and 0 <= a[1] < subs[a[0] - 1]
    sh = d["sensitive_hosts"]
    if not sh:
        return "sensitive_empty"
    seen = set()
    for k, v in sh.items():
        a = addr(k)
        if a is None:
            return None            # unparsable key: eval() decides, no verdict
        if not valid_addr(a):
            return "sensitive_address"
        if a in seen:
            return "sensitive_duplicate"
        seen.add(a)
        if not num(v) or v <= 0:
            return "sensitive_value"
    for sect, first, names in (("exploits", "service", srvs),
                               ("privilege_escalation", "process", procs)):
        for name, e in d[sect].items():
            if not isinstance(e, dict):
                return sect + "_not_mapping"
            for f in (first, "os", "prob", "cost", "access"):
                if f not in e:
                    return sect + "_missing_field"
            if not isinstance(e[first], str) or e[first] not in names:
                return sect + "_unknown_name"
            if not isinstance(e["os"], str):
                return sect + "_os_type"
            if e["os"].lower() != "none" and e["os"] not in oss:
                return sect + "_unknown_os"
            if not num(e["prob"]) or not num(e["cost"]):
                return sect + "_field_type"
            if e["prob"] < 0 or e["prob"] > 1:
                return sect + "_prob"
            if e["cost"] <= 0:
                return sect + "_cost"
            if e["access"] not in ("user", "root", 1, 2) or \
                    isinstance(e["access"], bool):
                return sect + "_access"
    hc = d["host_configurations"]
    want = {(s + 1, h) for s in range(n) for h in range(subs[s])}
    got = set()
    for k in hc:
        a = addr(k)
        if a is None or docgen.A(*a) != k:
            return "host_configs_addresses"
        got.add(a)
    if got != want:
        return "host_configs_addresses"
    for k, h in hc.items():
        if not isinstance(h, dict):
            return "host_config_type"
        for f in ("os", "services", "processes"):
            if f not in h:
                return "host_config_missing_key"
        if not isinstance(h["services"], list) or \
                not isinstance(h["processes"], list):
            return None
        try:
            if any(s not in srvs for s in h["services"]) or \
                    len(set(h["services"])) != len(h["services"]):
                return "host_services"
            if any(p not in procs for p in h["processes"]) or \
                    len(set(h["processes"])) != len(h["processes"]):
                return "host_processes"
        except TypeError:
            return None
        if h["os"] not in oss:
            return "host_os"
        if "firewall" in h:
            fw = h["firewall"]
            if not isinstance(fw, dict):
                return "host_firewall"
            for fk, fv in fw.items():
                fa = addr(fk)
                if fa is None:
                    return None
                if not valid_addr(fa):
                    return "host_firewall"
                if not isinstance(fv, list) or \
                        any(s not in srvs for s in fv) or \
                        len(set(fv)) != len(fv):
                    return "host_firewall"
        if "value" in h:
            if not num(h["value"]):
                return "host_value"
            a = addr(k)
            for sk, sv in sh.items():
                if addr(sk) == a and abs(h["value"] - sv) > 1e-6 * max(
                        1, abs(sv)):
                    return "host_value_contradiction"
    fw = d["firewall"]
    for i in range(n + 1):
        for j in range(n + 1):
            if i != j and T[i][j] == 1:
                if docgen.A(i, j) not in fw or docgen.A(j, i) not in fw:
                    return "firewall_rule_missing"
    for k, v in fw.items():
        if not isinstance(v, list):
            return "firewall_rule_type"
        try:
            if any(s not in srvs for s in v) or len(set(v)) != len(v):
                return "firewall_rule_services"
        except TypeError:
            return None
    if "step_limit" in d:
        sl = d["step_limit"]
        if type(sl) is not int:
            return "section_mistyped"
        if sl <= 0:
            return "step_limit"
    return None


def ambiguous(d):
    """A host firewall that names the same source address twice in
    different spellings: the format does not say which entry counts, so the
    document gives no verdict."""
    try:
        for h in d["host_configurations"].values():
            fw = h.get("firewall") or {}
            keys = [reader.parse_addr(k) for k in fw]
            if len(set(keys)) != len(keys):
                return True
    except Exception:
        return True
    return False


def flip_cases(text, rng, n):
    """Single-byte damage restricted to characters whose meaning we
    understand: a digit replaced by another digit, a letter by another
    letter."""
    import string
    cases = []
    idx = [i for i, c in enumerate(text) if c.isdigit() or c.isalpha()]
    for _ in range(n):
        if not idx:
            break
        i = rng.choice(idx)
        c = text[i]
        pool = string.digits if c.isdigit() else string.ascii_lowercase
        new = rng.choice([x for x in pool if x != c])
        cases.append({"fault": "doc_flip", "at": i, "from": c, "to": new,
                      "text": text[:i] + new + text[i + 1:]})
    return cases
