"""Child of procsim: executed in a FRESH interpreter (its own PYTHONHASHSEED).
Reads a job list from the file given as argv[1], executes the jobs in the
order given by argv[2] (a permutation seed), each job twice, and prints one
JSON object {job id: [digest, digest, ...]} on stdout."""
import hashlib
import json
import random
import sys


def canon(x):
    import numpy as np
    if isinstance(x, dict):
        return {str(k): canon(v) for k, v in sorted(
            x.items(), key=lambda kv: str(kv[0]))}
    if isinstance(x, (list, tuple)):
        return [canon(v) for v in x]
    if isinstance(x, (set, frozenset)):
        return sorted(canon(v) for v in x)
    if isinstance(x, np.ndarray):
        return canon(x.tolist())
    if isinstance(x, np.generic):
        return canon(x.item())
    if isinstance(x, float):
        return float(x).hex()
    if isinstance(x, (str, int, bool)) or x is None:
        return x
    return repr(x)


def fingerprint(scen):
    sd = scen.scenario_dict
    hosts = {}
    for a, h in sd["host"].items():
        hosts[str(tuple(a))] = {
            "os": list(h.os.items()), "services": list(h.services.items()),
            "processes": list(h.processes.items()), "value": h.value,
            "discovery_value": h.discovery_value,
            "firewall": {str(k): sorted(v) for k, v in h.firewall.items()}}
    doc = {
        "subnets": list(sd["subnets"]),
        "topology": [list(map(float, r)) for r in sd["topology"]],
        "os": list(sd["os"]), "services": list(sd["services"]),
        "processes": list(sd["processes"]),
        "sensitive_hosts": sorted((str(tuple(k)), v) for k, v in
                                  sd["sensitive_hosts"].items()),
        "exploits": list(sd["exploits"].items()),
        "privescs": list(sd["privilege_escalation"].items()),
        "scan": [sd["service_scan_cost"], sd["os_scan_cost"],
                 sd["subnet_scan_cost"], sd["process_scan_cost"]],
        "firewall": sorted((str(tuple(k)), sorted(map(str, v)))
                           for k, v in sd["firewall"].items()),
        "hosts": sorted(hosts.items()),
        "host_order": [str(tuple(a)) for a in sd["host"]],
        "step_limit": sd.get("step_limit"),
        "bounds": sd.get("address_space_bounds"),
    }
    return hashlib.sha256(json.dumps(canon(doc), sort_keys=True)
                          .encode()).hexdigest()[:20]


def trajectory(env, np_seed, plan_seed, n_steps):
    import numpy as np
    np.random.seed(np_seed)
    rng = random.Random(plan_seed)
    m = hashlib.sha256()
    obs, info = env.reset()
    m.update(np.asarray(obs).tobytes())
    flat = env.flat_actions
    nvec = None if flat else [int(v) for v in env.action_space.nvec]
    for _ in range(n_steps):
        if flat:
            a = rng.randrange(env.action_space.n)
        else:
            a = [rng.randrange(v) for v in nvec]
        obs, r, term, trunc, info = env.step(a)
        m.update(np.asarray(obs).tobytes())
        m.update(repr((float(r).hex(), bool(term), bool(trunc),
                       canon(info))).encode())
        if term or trunc:
            obs, _ = env.reset()
            m.update(np.asarray(obs).tobytes())
    return m.hexdigest()[:20]


def continue_trajectory(env, np_seed, plan_seed, n_steps):
    """Seeded continuation of the episode the environment is in (no reset
    first)."""
    import numpy as np
    np.random.seed(np_seed)
    rng = random.Random(plan_seed)
    m = hashlib.sha256()
    flat = env.flat_actions
    nvec = None if flat else [int(v) for v in env.action_space.nvec]
    for _ in range(n_steps):
        if flat:
            a = rng.randrange(env.action_space.n)
        else:
            a = [rng.randrange(v) for v in nvec]
        obs, r, term, trunc, info = env.step(a)
        m.update(np.asarray(obs).tobytes())
        m.update(repr((float(r).hex(), bool(term), bool(trunc),
                       canon(info))).encode())
        if term or trunc:
            obs, _ = env.reset()
            m.update(np.asarray(obs).tobytes())
    return m.hexdigest()[:20]


def continue_trajectory_noseed(env, plan_seed, n_steps):
    """Continuation under whatever state the global generator is in."""
    import numpy as np
    rng = random.Random(plan_seed)
    m = hashlib.sha256()
    flat = env.flat_actions
    nvec = None if flat else [int(v) for v in env.action_space.nvec]
    for _ in range(n_steps):
        a = rng.randrange(env.action_space.n) if flat else \
            [rng.randrange(v) for v in nvec]
        obs, r, term, trunc, info = env.step(a)
        m.update(np.asarray(obs).tobytes())
        m.update(repr((float(r).hex(), bool(term), bool(trunc))).encode())
        if term or trunc:
            env.reset()
    return m.hexdigest()[:20]


def planner_trajectory(env, np_seed, plan_seed, n_steps):
    """Look-ahead from a kept checkpoint: a chain of generative steps that
    starts at the state object the environment holds after reset.  Every
    step is executed twice from the same state object with the generator
    re-seeded identically (a planner expanding a node twice); the two results
    must be bit-identical.  Actions sweep the action space (brute force), so
    that the chain makes attack progress."""
    import numpy as np
    rng = random.Random(plan_seed)
    m = hashlib.sha256()
    state = env._planner_checkpoint
    flat = env.flat_actions
    if flat:
        n = env.action_space.n
        acts = [(rng.randrange(n) + i) % n for i in range(n_steps)]
    else:
        import itertools
        nvec = [int(v) for v in env.action_space.nvec]
        allv = list(itertools.islice(
            itertools.product(*[range(v) for v in nvec]), 5000))
        off = rng.randrange(len(allv))
        acts = [list(allv[(off + i) % len(allv)]) for i in range(n_steps)]

    def dig(res):
        nxt, obs, r, done, info = res
        return (np.asarray(nxt.tensor).tobytes(),
                np.asarray(obs.tensor).tobytes(),
                repr((float(r).hex(), bool(done), canon(info))))
    for i, a in enumerate(acts):
        if i % 2 == 1:
            # the planner first evaluated this (state, action) under another
            # seed; the seeded evaluation that follows must not depend on it
            np.random.seed((np_seed + i + 7919) % (2 ** 32))
            env.generative_step(state, a)
            np.random.seed((np_seed + i) % (2 ** 32))
            d_here = dig(env.generative_step(state, a))
            np.random.seed((np_seed + i) % (2 ** 32))
            d_copy = dig(env.generative_step(state.copy(), a))
            if d_here != d_copy:
                return "SEEDED-EVALUATION-DEPENDS-ON-EARLIER-ONE-AT-STEP-%d" % i
        np.random.seed((np_seed + i) % (2 ** 32))
        r1 = env.generative_step(state, a)
        d1 = dig(r1)
        np.random.seed((np_seed + i) % (2 ** 32))
        d2 = dig(env.generative_step(state, a))
        if d1 != d2:
            return "REPEAT-DIFFERS-AT-STEP-%d" % i
        for part in d1:
            m.update(part if isinstance(part, bytes) else part.encode())
        state = r1[0]
    return m.hexdigest()[:20]


def run_job(job):
    """-> list of digests (all must be equal everywhere)."""
    import numpy as np
    import nasim
    from nasim.envs import NASimEnv
    from dsim import configs
    kind = job["kind"]
    out = []
    if kind == "genbench_unseeded":
        for _ in range(2):
            np.random.seed(job["np_seed"])
            scen = configs.guarded_generate(nasim.make_benchmark_scenario,
                                            job["name"])
            out.append(fingerprint(scen))
        return out
    if kind in ("gen", "genbench"):
        for _ in range(2):
            if kind == "gen":
                p = dict(job["params"])
                if p.get("address_space_bounds") is not None:
                    p["address_space_bounds"] = tuple(
                        p["address_space_bounds"])
                if job.get("seed_type") == "np.int64":
                    p["seed"] = np.int64(p["seed"])
                scen = configs.guarded_generate(nasim.generate_scenario,
                                                **p)
            else:
                scen = configs.guarded_generate(
                    nasim.make_benchmark_scenario, job["name"], job["seed"])
            out.append(fingerprint(scen))
        return out
    if kind == "gen_fault":
        from dsim import seams
        p = dict(job["params"])
        if p.get("address_space_bounds") is not None:
            p["address_space_bounds"] = tuple(p["address_space_bounds"])
        for _ in range(2):
            try:
                if job["mode"] == "interrupted":
                    with seams.LineBudget("nasim/scenarios/generator.py",
                                          int(job["lines"])):
                        scen = nasim.generate_scenario(**p)
                else:
                    scen = configs.guarded_generate(nasim.generate_scenario,
                                                    **p)
                out.append(fingerprint(scen))
            except seams.BudgetExceeded:
                out.append("INTERRUPTED")
            except Exception as e:
                out.append("REJECTED:" + type(e).__name__)
        return out
    if kind == "traj":
        spec = job["spec"]
        modes = job["modes"]
        # (a) two fresh environments, (b) the same environment object replayed
        # after reset + re-seeding
        for rep in range(2):
            scen, _ = configs.build(spec)
            env = NASimEnv(scen, **modes)
            if job.get("reset_seed") is not None:
                # the Gymnasium way of seeding the environment's own stream;
                # the trajectory below is driven by numpy's global generator
                env.reset(seed=job["reset_seed"])
            out.append(trajectory(env, job["np_seed"], job["plan_seed"],
                                  job["steps"]))
        env.reset()
        out.append(trajectory(env, job["np_seed"], job["plan_seed"],
                              job["steps"]))
        if len(set(out)) == 1:
            # a deep copy of the environment is an environment: the same
            # seeded trajectory on the copy
            import copy
            try:
                env2 = copy.deepcopy(env)
            except Exception as e:
                out.append("EXC:deepcopy:" + type(e).__name__)
                return out
            env2.reset()
            out.append(trajectory(env2, job["np_seed"], job["plan_seed"],
                                  job["steps"]))
        if len(set(out)) == 1 and job.get("reset_seed") is None:
            # a forked worker process: the generator is seeded in the
            # parent, the trajectory is played in the child (and in the
            # parent afterwards) - same seed, same trajectory
            import os
            import numpy as np
            env.reset()
            r, w = os.pipe()
            np.random.seed(job["np_seed"])
            pid = os.fork()
            if pid == 0:
                try:
                    os.close(r)
                    d = continue_trajectory_noseed(env, job["plan_seed"], 40)
                    os.write(w, d.encode())
                finally:
                    os._exit(0)
            os.close(w)
            child = os.read(r, 100).decode()
            os.close(r)
            os.waitpid(pid, 0)
            mine = continue_trajectory_noseed(env, job["plan_seed"], 40)
            if child != mine:
                out.append("FORKED-WORKER-DIFFERS:" + child + "/" + mine)
                return out
        if len(set(out)) == 1:
            # mid-episode copies: play part of an episode, copy the
            # environment (deep copy and pickle round trip), and continue
            # original and copies with the same seeds
            import copy
            import pickle
            env.reset()
            half = max(3, job["steps"] // 4)
            continue_trajectory(env, job["np_seed"] + 1, job["plan_seed"] + 1,
                                half)
            try:
                c1 = copy.deepcopy(env)
                try:
                    c2 = pickle.loads(pickle.dumps(env))
                except Exception:
                    c2 = copy.deepcopy(env)
            except Exception as e:
                out.append("EXC:midcopy:" + type(e).__name__)
                return out
            cont = [continue_trajectory(e, job["np_seed"] + 2,
                                        job["plan_seed"] + 2, job["steps"])
                    for e in (env, c1, c2)]
            if len(set(cont)) != 1:
                out.append("MID-EPISODE-COPY-DIFFERS:" + "/".join(cont))
                return out
        if len(set(out)) == 1:
            # planner-style use: the same seeded look-ahead replayed twice
            # from one kept checkpoint (digests are only compared with each
            # other, so they get their own prefix)
            env.reset()
            env._planner_checkpoint = env.current_state
            a = planner_trajectory(env, job["np_seed"], job["plan_seed"],
                                   job["steps"])
            b = planner_trajectory(env, job["np_seed"], job["plan_seed"],
                                   job["steps"])
            if a != b or a.startswith(("REPEAT-DIFFERS",
                                       "SEEDED-EVALUATION")):
                out.append("PLANNER-REPLAY-DIFFERS:" + a + "/" + b)
        return out
    raise ValueError(kind)


def main():
    import dsim
    dsim.import_nasim()
    with open(sys.argv[1]) as f:
        jobs = json.load(f)
    order = list(range(len(jobs)))
    random.Random(int(sys.argv[2])).shuffle(order)
    res = {}
    for i in order:
        try:
            res[str(jobs[i]["id"])] = run_job(jobs[i])
        except Exception as e:
            res[str(jobs[i]["id"])] = ["EXC:" + type(e).__name__ + ":"
                                       + str(e)[:200]]
    sys.stdout.write("RESULT " + json.dumps(res) + "\n")


if __name__ == "__main__":
    main()
