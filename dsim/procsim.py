"""procsim - process identity and hash randomisation as the schedule (C14).

A run of kind 'procs' hands one job list (generator jobs, generated-benchmark
jobs, seeded trajectory jobs) to K FRESH interpreters with different
PYTHONHASHSEED values, each executing the jobs in a different order and every
job twice (trajectory jobs additionally on the same environment object after
reset + re-seeding); all digests of a job must be equal.

A run of kind 'seam' is the in-process accelerator: the generator is run with
the module-global name ``set`` bound to a set subclass whose iteration order
is a simulator-chosen permutation; a difference found there is reported only
after real interpreters reproduce it.
"""
import json
import os
import random
import subprocess
import sys
import tempfile

import numpy as np

from . import core, configs, docgen, VERIF, REPO
from .core import Violation

N_PROC_RUNS = {"quick": 32, "thorough": 320}


def make_jobs(rng, tier, n_gen=10, n_bench=3, n_traj=5):
    jobs = []
    jid = 0
    for _ in range(n_gen):
        p = configs.gen_params(rng, max_hosts=60)
        # restrictive firewalls with many services are where order matters
        if rng.random() < 0.5:
            p["num_services"] = rng.randint(4, 12)
            p["restrictiveness"] = rng.randint(1, 4)
            p["uniform"] = False
            configs.fix_params(p, rng)
        job = {"id": jid, "kind": "gen", "params": p}
        if rng.random() < 0.3:
            job["seed_type"] = "np.int64"     # a NumPy integer as the seed
        jobs.append(job)
        jid += 1
    # generations that do not complete: rejected parameter sets (the caller
    # catches the exception), a generation interrupted half way (virtual-time
    # budget, the analogue of Ctrl-C / a timeout) and one that raises inside
    # the host loop.  Whatever they leave behind in the process must not
    # change any seeded job that runs after them.
    fr = core.stream(rng.getrandbits(48), "gen-faults")
    for _ in range(3):
        p = configs.gen_params(fr, max_hosts=40)
        mode = fr.choice(["rejected", "rejected", "interrupted",
                          "interrupted", "natural"])
        job = {"id": jid, "kind": "gen_fault", "mode": mode, "params": p}
        if mode == "rejected":
            how = fr.choice(["exploit_probs_len", "privesc_probs_range",
                             "bounds_small", "privesc_probs_type"])
            job["how"] = how
            if how == "exploit_probs_len":
                p["exploit_probs"] = [0.5] * ((p.get("num_exploits")
                                               or p["num_services"]) + 1)
            elif how == "privesc_probs_range":
                p["privesc_probs"] = 1.5
            elif how == "privesc_probs_type":
                p["privesc_probs"] = "mixed"
            else:
                p["address_space_bounds"] = [1, 1]
        elif mode == "interrupted":
            job["lines"] = fr.choice([30, 80, 200, 500, 1500, 4000])
        else:
            p["uniform"] = False
            p["alpha_V"] = 1.0
        jobs.append(job)
        jid += 1
    for i in range(n_bench):
        name = rng.choice(configs.GEN_BENCH)
        jobs.append({"id": jid, "kind": "genbench", "name": name,
                     "seed": rng.randint(0, 10 ** 5)})
        jid += 1
        if i == 0:
            # the same benchmark created WITHOUT a seed after the global
            # generator was seeded: must not depend on what ran before
            jobs.append({"id": jid, "kind": "genbench_unseeded",
                         "name": name,
                         "np_seed": rng.randint(0, 2 ** 31 - 1)})
            jid += 1
    # two same-named generated benchmarks with different seeds, both driven
    # through the parameterised action space (name-keyed caches)
    bname = rng.choice(configs.GEN_BENCH[:6])
    for _ in range(2):
        jobs.append({"id": jid, "kind": "traj",
                     "spec": {"kind": "genbench", "name": bname,
                              "seed": rng.randint(0, 10 ** 5)},
                     "modes": {"fully_obs": rng.random() < 0.5,
                               "flat_actions": False, "flat_obs": True},
                     "np_seed": rng.randint(0, 2 ** 31 - 1),
                     "plan_seed": rng.randint(0, 2 ** 31 - 1),
                     "steps": 150, "reset_seed": None})
        jid += 1
    for _ in range(n_traj):
        spec = configs.draw_spec(rng, {"benchmark": 0.4, "generated": 0.3,
                                       "yaml": 0.3})
        mt = rng.choice([(fo, fa, fb) for fo in (False, True)
                         for fa in (True, False) for fb in (True, False)])
        jobs.append({"id": jid, "kind": "traj", "spec": spec,
                     "modes": {"fully_obs": mt[0], "flat_actions": mt[1],
                               "flat_obs": mt[2]},
                     "np_seed": rng.randint(0, 2 ** 31 - 1),
                     "plan_seed": rng.randint(0, 2 ** 31 - 1),
                     "steps": rng.choice([60, 150, 300]),
                     "reset_seed": rng.choice([None, rng.randint(0, 10 ** 6)])})
        jid += 1
        if spec["kind"] == "yaml" and not any(
                j.get("twin_of") is not None for j in jobs):
            # the same document with its name lists in another order: the
            # same names, another vector layout order
            import yaml
            try:
                d = yaml.safe_load(spec["text"])
                for key in ("os", "services", "processes"):
                    d[key] = list(reversed(d[key]))
                t2 = docgen.emit(d)
                if t2 != spec["text"]:
                    jobs.append(dict(jobs[-1], id=jid, twin_of=jid - 1,
                                     spec={"kind": "yaml", "text": t2}))
                    jid += 1
            except Exception:
                pass
    return jobs


def run_interpreter(jobs, hashseed, order_seed, timeout=600):
    fd, path = tempfile.mkstemp(prefix="dsim-jobs-", suffix=".json")
    try:
        with os.fdopen(fd, "w") as f:
            json.dump(jobs, f)
        env = dict(os.environ)
        env["PYTHONHASHSEED"] = str(hashseed)
        env["NASIM_VERIF_REPO"] = REPO
        env["PYTHONDONTWRITEBYTECODE"] = "1"
        p = subprocess.run([sys.executable, "-m", "dsim.procworker", path,
                            str(order_seed)], cwd=VERIF, env=env,
                           capture_output=True, text=True, timeout=timeout)
    finally:
        os.unlink(path)
    for line in p.stdout.splitlines():
        if line.startswith("RESULT "):
            return json.loads(line[7:])
    raise core.HarnessError(
        f"procworker (PYTHONHASHSEED={hashseed}) produced no result: "
        f"exit {p.returncode}\n{p.stderr[-1500:]}")


def compare(jobs, results, hashseeds):
    """results: list of {job id: [digests]} per interpreter."""
    for job in jobs:
        jid = str(job["id"])
        seen = {}
        for hs, res in zip(hashseeds, results):
            for rep, d in enumerate(res.get(jid, ["MISSING"])):
                seen.setdefault(d, []).append((hs, rep))
        if len(seen) > 1 or any(k.startswith(("EXC:", "MISSING"))
                                for k in seen):
            if len(seen) == 1:
                # the same exception everywhere: not a reproducibility issue
                continue
            clause = "C14.gen" if job["kind"] in (
                "gen", "genbench", "genbench_unseeded", "gen_fault") \
                else "C14.traj"
            groups = [{"digest": d, "runs(PYTHONHASHSEED,repetition)": v}
                      for d, v in sorted(seen.items())]
            raise Violation(
                clause, "the same seeded job gave different results across "
                "processes / hash seeds / repetitions",
                job={k: v for k, v in job.items() if k != "spec"},
                spec_kind=(job.get("spec") or {}).get("kind"),
                groups=groups)


def procs_execute(trace, tier, res):
    jobs = trace["ops"]
    hashseeds = trace["hashseeds"]
    counters = core.Counters()
    res["trace"] = trace
    results = []
    rng = random.Random(trace["seed"])
    for hs in hashseeds:
        results.append(run_interpreter(jobs, hs, rng.randint(0, 10 ** 9)))
        counters.hit("fault.hash_order")
        counters.hit("fault.process_boundary")
    counters.hit("jobs.gen", sum(1 for j in jobs if j["kind"] == "gen"))
    counters.hit("jobs.genbench",
                 sum(1 for j in jobs if j["kind"].startswith("genbench")))
    counters.hit("jobs.traj", sum(1 for j in jobs if j["kind"] == "traj"))
    try:
        compare(jobs, results, hashseeds)
    except Violation as v:
        res["violation"] = v.to_json()
    res["counters"] = dict(counters)
    res["ops"] = len(jobs) * len(hashseeds)
    res["steps"] = sum(j.get("steps", 0) for j in jobs) * 3 * len(hashseeds)
    res["nontrivial"] = True
    res["case_digest"] = core.digest(core.jsonable(jobs))
    return res


# --------------------------------------------------------------------------
# in-process accelerator: permuted set iteration
# --------------------------------------------------------------------------
class ShuffledSet(set):
    """A set whose iteration order is a seeded permutation (stands in for a
    different PYTHONHASHSEED)."""
    _rng = random.Random(0)

    def __iter__(self):
        items = sorted(set.__iter__(self), key=repr)
        ShuffledSet._rng.shuffle(items)
        return iter(items)

    def copy(self):
        return ShuffledSet(set.__iter__(self))


def gen_with_order(params, order_seed):
    import nasim
    import nasim.scenarios.generator as g
    from .procworker import fingerprint
    p = dict(params)
    if p.get("address_space_bounds") is not None:
        p["address_space_bounds"] = tuple(p["address_space_bounds"])
    ShuffledSet._rng = random.Random(order_seed)
    st = np.random.get_state()
    g.set = ShuffledSet
    try:
        scen = configs.guarded_generate(nasim.generate_scenario, **p)
    finally:
        del g.set
        np.random.set_state(st)
    return fingerprint(scen)


def seam_execute(trace, tier, res):
    counters = core.Counters()
    res["trace"] = trace
    jobs = trace["ops"]
    res["ops"] = 0
    try:
        for job in jobs:
            fps = set()
            for k in range(3):
                try:
                    fps.add(gen_with_order(job["params"],
                                           trace["seed"] + k))
                except Exception as e:
                    fps.add("EXC:" + type(e).__name__)
                counters.hit("fault.hash_order_seam")
                res["ops"] += 1
            if len(fps) > 1:
                counters.hit("seam.suspicion")
                # confirm with real interpreters before reporting
                j = [{"id": 0, "kind": "gen", "params": job["params"]}]
                hashseeds = list(range(8))
                results = [run_interpreter(j, hs, 0) for hs in hashseeds]
                try:
                    compare(j, results, hashseeds)
                    counters.hit("seam.suspicion_unconfirmed")
                except Violation as v:
                    v.detail["found_by"] = "permuted-set seam, confirmed " \
                        "by real interpreters"
                    raise
    except Violation as v:
        res["violation"] = v.to_json()
    res["counters"] = dict(counters)
    res["steps"] = res["ops"]
    res["nontrivial"] = True
    res["case_digest"] = core.digest(core.jsonable(jobs))
    return res


def run_one(prop, tier, root, idx, extra):
    seed = core.run_seed(prop, tier, root, idx)
    rng = core.stream(seed, "cfg")
    res = {"idx": idx, "seed": seed}
    if idx < N_PROC_RUNS[tier]:
        jobs = make_jobs(rng, tier)
        k = 3 if tier == "quick" else 4
        hashseeds = [0, 1 + idx % 7] + [rng.randint(2, 4000)
                                        for _ in range(k - 2)]
        trace = {"kind": "procs", "seed": seed, "ops": jobs,
                 "hashseeds": hashseeds}
        return procs_execute(trace, tier, res)
    jobs = []
    for _ in range(10):
        p = configs.gen_params(rng, max_hosts=40)
        if rng.random() < 0.6:
            p["num_services"] = rng.randint(4, 12)
            p["restrictiveness"] = rng.randint(1, 4)
            p["uniform"] = False
            configs.fix_params(p, rng)
        jobs.append({"params": p})
    trace = {"kind": "seam", "seed": seed % (2 ** 31), "ops": jobs}
    return seam_execute(trace, tier, res)


def replay_run(prop, run, tier):
    res = {"idx": -1, "seed": run.get("seed", 0)}
    if run.get("kind") == "seam":
        return seam_execute(run, tier, res)
    return procs_execute(run, tier, res)
