"""Engine adapter: procsim serves C14."""
from . import procsim

NAME = "procsim"


def budget(prop, tier):
    n = procsim.N_PROC_RUNS[tier]
    return {"runs": n + (300 if tier == "quick" else 10000), "chunk": 2,
            "wall": 220 if tier == "quick" else 3300, "hang": 400}


def extra(prop, tier):
    return {}


run_one = procsim.run_one
replay_run = procsim.replay_run


def sample(r):
    t = r["trace"]
    out = {"run_index": r["idx"], "kind": t.get("kind"),
           "hashseeds": t.get("hashseeds")}
    jobs = []
    for j in t["ops"][:6]:
        j = dict(j)
        if "spec" in j and isinstance(j["spec"], dict) and \
                "text" in j["spec"]:
            j["spec"] = {"kind": "yaml", "text_head": j["spec"]["text"][:120]}
        jobs.append(j)
    out["jobs"] = jobs
    out["jobs_total"] = len(t["ops"])
    return out


def describe(prop):
    return {
        "level": "exploration",
        "rule": ("two kinds of cases.  'procs' (the first %d / %d runs in "
                 "quick / thorough): one job list - 10 generator jobs "
                 "(random parameter sets, biased to many services and "
                 "restrictive firewalls), 3 generated-benchmark jobs and 5 "
                 "seeded-trajectory jobs on shipped / generated / random "
                 "YAML scenarios in a random mode triple - is executed by 3 "
                 "(thorough: 4) FRESH interpreters with different "
                 "PYTHONHASHSEED values in different job orders, every job "
                 "twice in-process, trajectory jobs a third time on the same"
                 " environment object after reset and re-seeding; all "
                 "digests of a job must agree.  'seam': 10 generator jobs "
                 "each run 3 times in-process with the generator's sets "
                 "iterating in simulator-chosen permutations; a difference "
                 "is confirmed with 8 real interpreters before it is "
                 "reported.  distinct = digest of the job list; every case "
                 "is non-trivial." % (procsim.N_PROC_RUNS["quick"],
                                      procsim.N_PROC_RUNS["thorough"])),
        "probes": [],
        "assumptions": [
            "sampling of parameter sets, seeds and hash seeds",
            "canonical fingerprint of scenario_dict: hosts, rules with "
            "allow-lists as sorted lists, exploits, escalations, sensitive "
            "hosts, bounds, costs, step limit",
            "a permuted-set order that no real hash seed produces can only "
            "cause an unconfirmed suspicion, never a verdict"],
        "real": ["fresh CPython interpreters (process boundary, "
                 "PYTHONHASHSEED)", "nasim.scenarios.generator", "nasim.envs",
                 "numpy global RandomState"],
        "stub": ["'seam' runs only: builtin set replaced inside "
                 "nasim.scenarios.generator by a permuting subclass"],
    }
