"""gensim - the scenario generator under virtual time (C15) and solvability of
generated / shipped scenarios with chance faults switched off (C16)."""
import traceback

import numpy as np

from . import core, configs, model, reader, seams, envsim
from .core import Violation
from .envsim import EnvSim, SutError

LINE_BUDGET = 2_000_000
DRAW_BUDGET = 3_000_000


# ==========================================================================
# C15
# ==========================================================================
def generate_traced(params, history=None, reuse=False):
    """generate_scenario under the line/draw budget.
    -> (scenario | None, info dict).

    history: earlier generator calls of the same process (completed,
    rejected by the generator, or interrupted half way by a virtual-time
    budget); with reuse they - and the judged call - go through ONE
    ScenarioGenerator instance."""
    import nasim
    gen_fn = nasim.generate_scenario
    if reuse:
        from nasim.scenarios import ScenarioGenerator
        gen_fn = ScenarioGenerator().generate
    import copy
    # the caller's own parameter objects (lists of probabilities, bounds):
    # built once; a "same" history entry passes these very objects to an
    # earlier call, as a caller that keeps its settings in variables would
    caller_p = copy.deepcopy(dict(params))
    st0 = np.random.get_state()
    for h in history or ():
        hp = caller_p if h["kind"] == "same" \
            else copy.deepcopy(dict(h["params"]))
        if h["kind"] == "same":
            hp = dict(hp)          # same list objects, own dict
            hp.pop("probs_as_numpy", None)
        if hp.get("address_space_bounds") is not None:
            hp["address_space_bounds"] = tuple(hp["address_space_bounds"])
        try:
            with seams.LineBudget(
                    "nasim/scenarios/generator.py",
                    int(h["lines"]) if h["kind"] == "interrupted"
                    else LINE_BUDGET):
                gen_fn(**hp)
        except BaseException as e:
            if not isinstance(e, (Exception, seams.BudgetExceeded)):
                raise
    np.random.set_state(st0)
    p = dict(caller_p)
    if p.get("address_space_bounds") is not None and \
            p.get("seed", 0) % 2 == 0:
        p["address_space_bounds"] = tuple(p["address_space_bounds"])
    if p.pop("probs_as_numpy", False):
        # a NumPy float is a float
        for k in ("exploit_probs", "privesc_probs"):
            if isinstance(p.get(k), float):
                p[k] = np.float64(p[k])
    info = {"lines": 0, "draws": 0}
    st = np.random.get_state()
    scen = None
    try:
        with seams.counting_generator(DRAW_BUDGET) as cr:
            lb = seams.LineBudget("nasim/scenarios/generator.py", LINE_BUDGET)
            try:
                with lb:
                    scen = gen_fn(**p)
            except seams.BudgetExceeded as e:
                info["budget"] = str(e)
                info["where"] = lb.where
            except Exception as e:
                tb = traceback.extract_tb(e.__traceback__)
                fr = [f for f in tb if f.filename.endswith("generator.py")]
                info["exception"] = type(e).__name__
                info["message"] = str(e)[:300]
                info["raised_in"] = fr[-1].name if fr else None
                info["line"] = fr[-1].lineno if fr else None
            info["lines"] = lb.lines
            info["draws"] = cr.draws
    finally:
        np.random.set_state(st)
    return scen, info


def c15_check(params, scen, info, counters):
    p = params
    if "budget" in info:
        raise Violation("C15.terminates", "generation did not return within "
                        f"the virtual-time budget ({LINE_BUDGET} traced lines"
                        f" / {DRAW_BUDGET} draws)", budget=info["budget"],
                        where=info.get("where"), lines=info["lines"],
                        draws=info["draws"])
    if "exception" in info:
        raise Violation("C15.no-raise", "the generator raised for a "
                        "parameter set of the documented domain",
                        exception=info["exception"],
                        message=info["message"],
                        raised_in=info["raised_in"], line=info["line"],
                        alpha_V=p.get("alpha_V"), uniform=p.get("uniform"))
    sd = scen.scenario_dict
    S, OS, P = p["num_services"], p["num_os"], p["num_processes"]
    ne = p.get("num_exploits") or S
    npe = p.get("num_privescs") or P

    def bad(msg, **d):
        raise Violation("C15.shape", msg, **d)
    subnets = list(sd["subnets"])
    hosts = sd["host"]
    if len(hosts) != p["num_hosts"] or sum(subnets[1:]) != p["num_hosts"]:
        bad("number of hosts != requested", hosts=len(hosts),
            subnets=subnets, requested=p["num_hosts"])
    want_addrs = [(s, h) for s in range(1, len(subnets))
                  for h in range(subnets[s])]
    if sorted(hosts) != want_addrs or any(n < 1 for n in subnets):
        bad("host addresses do not fill the subnets", subnets=subnets)
    for name, lst, n, pre in (("os", sd["os"], OS, "os_"),
                              ("services", sd["services"], S, "srv_"),
                              ("processes", sd["processes"], P, "proc_")):
        if len(lst) != n or len(set(lst)) != n:
            bad(f"number of {name} != requested", got=list(lst), requested=n)
    if len(sd["exploits"]) != ne:
        bad("number of exploits != requested", got=len(sd["exploits"]),
            requested=ne)
    if len(sd["privilege_escalation"]) != npe:
        bad("number of escalations != requested",
            got=len(sd["privilege_escalation"]), requested=npe)
    # topology
    T = np.array(sd["topology"])
    n = len(subnets)
    if T.shape != (n, n) or not np.array_equal(T, T.T) or \
            not np.all(np.diag(T) == 1) or \
            not np.all((T == 0) | (T == 1)):
        bad("topology is not a symmetric, self-connected 0/1 matrix",
            topology=T.tolist())
    if T[0][1] != 1 or any(T[0][s] != 0 for s in range(2, n)):
        bad("only the DMZ subnet (1) may be public", row0=T[0].tolist())
    # hosts
    for a, h in hosts.items():
        if sum(1 for v in h.os.values() if v) != 1 or \
                list(h.os) != list(sd["os"]):
            bad("a host does not run exactly one OS", host=a,
                os=core.jsonable(h.os))
        if not any(h.services.values()) or \
                list(h.services) != list(sd["services"]):
            bad("a host runs no service", host=a)
        if not any(h.processes.values()) or \
                list(h.processes) != list(sd["processes"]):
            bad("a host runs no process", host=a)
        if tuple(h.address) != tuple(a):
            bad("host address mismatch", host=a)
    # exploits / escalations

    def probs_ok(defs, spec, what):
        vals = [float(d["prob"]) for d in defs.values()]
        for v in vals:
            if not (0.0 < v <= 1.0):
                bad(f"{what} probability outside (0, 1]", prob=v)
        if isinstance(spec, float) and any(v != spec for v in vals):
            bad(f"{what} probabilities != requested value", got=vals,
                requested=spec)
        if isinstance(spec, list) and vals != [float(x) for x in spec]:
            bad(f"{what} probabilities != requested list", got=vals,
                requested=spec)
        if spec == "mixed" and any(v not in (0.3, 0.6, 0.9) for v in vals):
            bad(f"{what} 'mixed' probabilities outside {{0.3,0.6,0.9}}",
                got=vals)
    for name, e in sd["exploits"].items():
        if e["service"] not in sd["services"] or \
                (e["os"] is not None and e["os"] not in sd["os"]):
            bad("exploit references an undefined service/OS", exploit=name,
                definition=core.jsonable(e))
        if e["cost"] != p["exploit_cost"] or e["access"] not in (1, 2):
            bad("exploit cost/access not as requested", exploit=name,
                definition=core.jsonable(e))
    probs_ok(sd["exploits"], p.get("exploit_probs"), "exploit")
    for name, e in sd["privilege_escalation"].items():
        if e["process"] not in sd["processes"] or \
                (e["os"] is not None and e["os"] not in sd["os"]):
            bad("escalation references an undefined process/OS",
                escalation=name, definition=core.jsonable(e))
        if e["cost"] != p["privesc_cost"] or e["access"] not in (1, 2):
            bad("escalation cost/access not as requested", escalation=name,
                definition=core.jsonable(e))
    probs_ok(sd["privilege_escalation"], p.get("privesc_probs"),
             "escalation")
    if len(set((e["service"], e["os"]) for e in sd["exploits"].values())) \
            != ne:
        bad("two exploits target the same (service, OS)")
    if len(set((e["process"], e["os"])
               for e in sd["privilege_escalation"].values())) != npe:
        bad("two escalations target the same (process, OS)")
    # sensitive hosts
    sens = {tuple(k): v for k, v in sd["sensitive_hosts"].items()}
    if len(sens) != 2 or (2, 0) not in sens or \
            sens[(2, 0)] != p["r_sensitive"]:
        bad("the sensitive-subnet host (2, 0) must be sensitive with value "
            "r_sensitive, plus one user host", sensitive=core.jsonable(sens))
    other = [a for a in sens if a != (2, 0)][0]
    if other[0] < 3 or other not in hosts or sens[other] != p["r_user"]:
        bad("the second sensitive host must be a user-subnet host with "
            "value r_user", sensitive=core.jsonable(sens))
    if not p.get("random_goal") and \
            other != (len(subnets) - 1, subnets[-1] - 1):
        bad("without random_goal the last host of the last user subnet is "
            "the goal", got=other)
    for a, h in hosts.items():
        want = float(sens[a]) if a in sens else float(p["base_host_value"])
        if float(h.value) != want:
            bad("host value != requested", host=a, value=h.value,
                expected=want)
        if float(h.discovery_value) != float(p["host_discovery_value"]):
            bad("host discovery value != requested", host=a,
                value=h.discovery_value)
    # bounds, scan costs, step limit
    b = sd.get("address_space_bounds")
    want_b = tuple(p["address_space_bounds"]) if \
        p.get("address_space_bounds") is not None else \
        (len(subnets), max(subnets))
    if b is None or tuple(b) != want_b or \
            tuple(scen.address_space_bounds) != want_b:
        bad("address-space bounds not honoured", got=b, expected=want_b)
    for k in ("service_scan_cost", "os_scan_cost", "subnet_scan_cost",
              "process_scan_cost"):
        if sd[k] != p[k]:
            bad("scan cost != requested", key=k, got=sd[k], requested=p[k])
    if sd.get("step_limit") != p.get("step_limit"):
        bad("step limit != requested", got=sd.get("step_limit"))
    # ---- firewall --------------------------------------------------------
    fw = {tuple(k): v for k, v in sd["firewall"].items()}
    pairs = {(i, j) for i in range(n) for j in range(n)
             if i != j and T[i][j] == 1}
    if set(fw) != pairs:
        raise Violation("C15.firewall", "rule keys != ordered connected "
                        "subnet pairs",
                        missing=sorted(pairs - set(fw))[:5],
                        unexpected=sorted(set(fw) - pairs)[:5])
    services = set(sd["services"])
    R = p["restrictiveness"]
    for (i, j), allowed in fw.items():
        allowed = set(allowed)
        if not allowed <= services:
            raise Violation("C15.firewall", "a rule lists an undefined "
                            "service", rule=[i, j],
                            services=sorted(map(str, allowed - services)))
        if i > 2 and j > 2:
            if allowed != services:
                raise Violation("C15.firewall", "a rule between user subnets"
                                " blocks something", rule=[i, j],
                                allowed=sorted(allowed))
        elif j != 0:
            if not (1 <= len(allowed) <= R):
                raise Violation("C15.firewall", "a zone-crossing rule into "
                                "a network subnet must allow between one "
                                "and `restrictiveness` services",
                                rule=[i, j], allowed=sorted(allowed),
                                restrictiveness=R)
            if len(allowed) == R:
                counters.hit("probe.rule_at_restrictiveness")
    counters.hit("probe.generated_ok")
    if p["num_hosts"] > 40:
        counters.hit("probe.more_than_one_dmz_host")
    if p.get("address_space_bounds") is not None:
        counters.hit("probe.custom_bounds")


def c15_run_one(prop, tier, root, idx, extra):
    seed = core.run_seed(prop, tier, root, idx)
    rng = core.stream(seed, "cfg")
    params = configs.gen_params(rng, max_hosts=120, allow_alpha1=True,
                                small_bias=True)
    if rng.random() < 0.3:
        params["probs_as_numpy"] = True
    if rng.random() < 0.03 and params.get("address_space_bounds") is None:
        # several hundred hosts: the DMZ / sensitive subnets outgrow the
        # user subnets (more than 5 hosts) from 201 hosts on
        params["num_hosts"] = rng.choice([200, 201, 202, 205, 240, 250])
    trace = {"params": params, "seed": seed}
    fx = core.stream(seed, "faults2")
    if fx.random() < 0.3:
        hist = []
        for _ in range(fx.choice([1, 1, 2])):
            hp = configs.gen_params(fx, max_hosts=40, small_bias=True)
            kind = fx.choice(["ok", "ok", "rejected", "rejected",
                              "interrupted", "same", "same"])
            h = {"kind": kind, "params": hp}
            if kind == "same":
                h["params"] = {}
            if kind == "rejected":
                h["how"] = configs.reject_params(hp, fx)
            elif kind == "interrupted":
                h["lines"] = fx.choice([30, 80, 200, 500, 1500, 4000])
            hist.append(h)
        trace["history"] = hist
        trace["reuse"] = fx.random() < 0.7
    return c15_execute(trace, tier, {"idx": idx, "seed": seed})


def c15_execute(trace, tier, res):
    counters = core.Counters()
    params = trace["params"]
    res["trace"] = trace
    scen, info = generate_traced(params, trace.get("history"),
                                 trace.get("reuse", False))
    for h in trace.get("history") or ():
        counters.hit("fault.earlier_generation." + h["kind"])
    if trace.get("reuse"):
        counters.hit("fault.generator_instance_reused")
    counters.hit("sim.lines", info["lines"])
    counters.hit("sim.draws", info["draws"])
    counters.hit("fault.budget_armed")
    try:
        c15_check(params, scen, info, counters)
    except Violation as v:
        res["violation"] = v.to_json()
    if scen is not None:
        # the returned scenario belongs to the caller: wrecking it must not
        # influence later generations in this process
        try:
            sd = scen.scenario_dict
            np.asarray(sd["topology"])[...] = 0
            sd["firewall"].clear()
            sd["sensitive_hosts"].clear()
            sd["exploits"].clear()
            sd["privilege_escalation"].clear()
            for h in sd["host"].values():
                h.os.clear()
                h.services.clear()
                h.processes.clear()
            del sd["os"][:], sd["services"][:], sd["processes"][:]
            counters.hit("fault.caller_wrecks_returned_scenario")
        except Exception:
            pass
    res["counters"] = dict(counters)
    res["ops"] = 1
    res["steps"] = info["lines"]
    res["nontrivial"] = True
    res["case_digest"] = core.digest(core.jsonable(
        {k: v for k, v in params.items()}))
    return res


# ==========================================================================
# C16
# ==========================================================================
def plan_closure(cfg):
    """Monotone closure of the reference model with every draw succeeding.
    -> (plan [Act...], final status)."""
    st = model.initial_status(cfg)
    plan = []
    acts = {}
    for name, e in cfg.exploits.items():
        acts[("exploit", name)] = e
    changed = True
    while changed and not model.goal(cfg, st):
        changed = False
        # subnet scans first (cheap), then exploits / escalations
        for h in cfg.order:
            if st[h][0] and st[h][3] >= 1 and any(
                    not st[x][2] for x in model.scan_discovers(cfg, h)):
                a = model.Act("subnet_scan", h, "subnet_scan",
                              cfg.scan_cost["subnet_scan"], 1.0, 1, None,
                              None, None, None)
                st, _ = model.apply_success(cfg, st, a)
                plan.append(a)
                changed = True
        for h in cfg.order:
            if not model.visible(st, h) or st[h][3] >= 2:
                continue
            best = None
            for name, e in cfg.exploits.items():
                if e["access"] <= st[h][3]:
                    continue
                a = model.Act("exploit", h, name, e["cost"], e["prob"], 1,
                              e["service"], None, e["os"], e["access"])
                if e["prob"] > 0 and model.host_pre(cfg, st, a) and \
                        model.net_pre(cfg, st, a):
                    if best is None or a.access > best.access:
                        best = a
            if best is None and st[h][0]:
                for name, pe in cfg.privescs.items():
                    if pe["access"] <= st[h][3]:
                        continue
                    a = model.Act("privesc", h, name, pe["cost"], pe["prob"],
                                  1, None, pe["process"], pe["os"],
                                  pe["access"])
                    if pe["prob"] > 0 and model.host_pre(cfg, st, a) and \
                            model.net_pre(cfg, st, a):
                        if best is None or a.access > best.access:
                            best = a
            if best is not None:
                st, _ = model.apply_success(cfg, st, best)
                plan.append(best)
                changed = True
    return plan, st


def prune_plan(cfg, plan):
    """Drop plan steps that are not needed for the goal (backwards)."""
    keep = list(plan)
    i = len(keep) - 1
    while i >= 0:
        cand = keep[:i] + keep[i + 1:]
        st = model.initial_status(cfg)
        ok = True
        for a in cand:
            if not (model.host_pre(cfg, st, a) and model.net_pre(cfg, st, a)):
                ok = False
                break
            st, _ = model.apply_success(cfg, st, a)
        if ok and model.goal(cfg, st):
            keep = cand
        i -= 1
    return keep


def why_unsolvable(cfg, st):
    """Which structural clause of the statement fails (for the report)."""
    out = []
    for h in cfg.sensitive:
        if st[h][3] >= 2:
            continue
        hc = cfg.hosts[h]
        vul = [n for n, e in cfg.exploits.items()
               if e["service"] in hc["services"]
               and (e["os"] is None or e["os"] == hc["os"])]
        if not vul:
            out.append(f"sensitive host {h} is not vulnerable to any exploit")
            continue
        root_e = [n for n in vul if cfg.exploits[n]["access"] >= 2]
        pes = [n for n, p in cfg.privescs.items()
               if p["process"] in hc["processes"]
               and (p["os"] is None or p["os"] == hc["os"])
               and p["access"] >= 2]
        if not root_e and not pes:
            out.append(f"sensitive host {h}: user-level exploit only and no "
                       "applicable escalation")
            continue
        if not st[h][1] or not st[h][2]:
            out.append(f"sensitive host {h} is never reachable/discovered: a "
                       "subnet on the way has no exploitable host or the "
                       "firewalls admit no usable service")
        else:
            out.append(f"sensitive host {h} visible but no exploit is "
                       "admitted by the firewalls")
    return out


def c16_spec(rng, idx):
    if idx < len(configs.SHIPPED):
        return {"kind": "benchmark", "name": configs.SHIPPED[idx]}
    if idx < len(configs.SHIPPED) + len(configs.GEN_BENCH) * 2:
        j = idx - len(configs.SHIPPED)
        return {"kind": "genbench",
                "name": configs.GEN_BENCH[j % len(configs.GEN_BENCH)],
                "seed": rng.randint(0, 10 ** 6)}
    if rng.random() < 0.3:
        return {"kind": "genbench", "name": rng.choice(configs.GEN_BENCH),
                "seed": rng.randint(0, 10 ** 6)}
    return {"kind": "generated",
            "params": configs.gen_params(rng, max_hosts=100)}


def c16_run_one(prop, tier, root, idx, extra):
    seed = core.run_seed(prop, tier, root, idx)
    rng = core.stream(seed, "cfg")
    spec = c16_spec(rng, idx)
    return c16_execute({"spec": spec, "seed": seed}, tier,
                       {"idx": idx, "seed": seed})


def c16_execute(trace, tier, res):
    spec, seed = trace["spec"], trace["seed"]
    counters = core.Counters()
    res["trace"] = trace
    res["ops"] = res["steps"] = 0
    fl = core.stream(seed, "faults")
    sim = None
    try:
        param = core.h64(f"{seed}|param-replay") % 3 == 0
        try:
            sim = EnvSim(spec, {"fully_obs": False, "flat_actions": not param,
                                "flat_obs": True}, [], seed, tier,
                         record=True)
        except SutError as e:
            res["sut_error"] = str(e)
            res["counters"] = dict(counters)
            return res
        cfg = sim.cfg
        plan, st = plan_closure(cfg)
        if param and any((a.kind, a.target, a.name) not in sim.table.by_key
                         for a in plan):
            # a plan action is not expressible as a parameter vector (not
            # the first definition for its pair): replay with flat actions
            scen0 = sim.scenario
            sim.close()
            param = False
            sim = EnvSim(spec, {"fully_obs": False, "flat_actions": True,
                                "flat_obs": True}, [], seed, tier,
                         record=True, scenario=scen0, cfg=cfg)
        if param:
            counters.hit("fault.encoding.wrapped_host_param")
        if core.h64(f"{seed}|helpers-first") % 4 == 0:
            # helper calls on a first environment, then the episode is
            # played on a second environment built from the same Scenario
            from . import oracles
            counters.hit("fault.readonly_api_calls")
            try:
                oracles._random_initial(sim.env)
                sim.env.generate_initial_state()
                sim.env.get_score_upper_bound()
            except Exception as e:
                raise SutError("helpers", e)
            sim._reconstruct()
        if not model.goal(cfg, st):
            raise Violation("C16.model", "the reference closure with every "
                            "draw succeeding does not reach root on all "
                            "sensitive hosts", reasons=why_unsolvable(cfg, st),
                            spec=spec if spec["kind"] != "yaml" else "yaml")
        if len(plan) <= 60:
            plan = prune_plan(cfg, plan)
        counters.hit("sim.plan_steps", len(plan))
        lookahead = core.h64(f"{seed}|lookahead") % 3 == 0
        reject_at = None
        if core.h64(f"{seed}|reject-reset") % 4 == 0 and len(plan) >= 2:
            reject_at = 1 + core.h64(f"{seed}|rr") % (len(plan) - 1)
        if lookahead:
            counters.hit("fault.background_gstep.planner_replay")
        done = False
        n = 0
        for a in plan:
            key = (a.kind, a.target, a.name)
            if key not in sim.table.by_key:
                raise Violation("C16.replay", "a plan action is not in the "
                                "environment's action space", action=list(
                                    map(str, key)))
            ops = []
            if a.prob < 1.0 and fl.random() < 0.3:
                # chance faults on: a failing draw first, then retry
                ops.append({"op": "step", "a": [a.kind, list(a.target),
                                                a.name],
                            "u": [float((a.prob + 1) / 2).hex()]})
                counters.hit("fault.chance_fail")
            if lookahead:
                # a planning agent tries the action on the current state
                # with the generative step before it takes it for real
                ops.append({"op": "gstep", "src": "cur",
                            "a": [a.kind, list(a.target), a.name],
                            "u": [float(0.0).hex()]})
            ops.append({"op": "step", "a": [a.kind, list(a.target), a.name],
                        "u": [float(0.0).hex()]})
            if param:
                # equivalent host numbers (documented wrap-around)
                for o in ops:
                    if o["op"] == "step":
                        o["enc"] = "list"
                        o["wrap"] = 1 + core.h64(f"{seed}|w|{n}") % 5
            if reject_at is not None and n >= reject_at:
                # a reset() call that is rejected (bad seed) in the middle
                # of the plan; the caller catches it and carries on
                reject_at = None
                counters.hit("fault.rejected_call.reset")
                ops.insert(0, {"op": "reject", "call": "reset",
                               "how": ("neg", "float", "str", "int64")[
                                   core.h64(f"{seed}|rj") % 4]})
            for op in ops:
                sim.exec_op(op)
                if op["op"] != "step":
                    continue
                kind, out = sim.record[-1]
                n += 1
                done = out["done"]
        res["ops"] = n
        res["steps"] = n
        if not done:
            last = sim.record[-1][1] if sim.record else {}
            raise Violation("C16.replay", "the extracted plan, replayed on "
                            "the real environment with chance forced to "
                            "succeed, does not end with the terminal flag "
                            "set", plan_length=len(plan),
                            last_info=last.get("info"),
                            goal_model=True)
        counters.hit("probe.solved")
        if cfg.step_limit is not None and n > cfg.step_limit:
            counters.hit("probe.plan_longer_than_step_limit")
    except Violation as v:
        res["violation"] = v.to_json()
    except SutError as e:
        res["sut_error"] = str(e)
    finally:
        if sim is not None:
            sim.close()
    res["counters"] = dict(counters)
    res["nontrivial"] = True
    res["case_digest"] = core.digest(core.jsonable(spec))
    return res
