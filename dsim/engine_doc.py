"""Engine adapter: docsim serves C17 (valid documents mean what they say) and
C18 (fault injection on the stored document: corruption catalogue + torn
writes)."""
from . import docsim, core

NAME = "docsim"


def budget(prop, tier):
    if prop == "C17":
        return {"runs": 1509 if tier == "quick" else 60000, "chunk": 20,
                "wall": 200 if tier == "quick" else 3300, "hang": 400}
    return {"runs": 209 if tier == "quick" else 5009, "chunk": 10,
            "wall": 200 if tier == "quick" else 3300, "hang": 400}


def extra(prop, tier):
    return {}


def run_one(prop, tier, root, idx, ex):
    if prop == "C17":
        return docsim.c17_run_one(prop, tier, root, idx, ex)
    return docsim.c18_run_one(prop, tier, root, idx, ex)


def replay_run(prop, run, tier):
    res = {"idx": -1, "seed": run.get("seed", 0)}
    if prop == "C17":
        return docsim.c17_execute(run, tier, res)
    return docsim.c18_execute(run, tier, res)


def sample(r):
    t = r["trace"]
    if "ops" in t:       # C18
        return {"run_index": r["idx"], "base": t.get("label"),
                "faults": [c["fault"] for c in t["ops"]][:90],
                "example_fault": t["ops"][0]["fault"] if t["ops"] else None,
                "example_document_head":
                    t["ops"][0]["text"][:500] if t["ops"] else None}
    eps = t.get("episodes") or []
    return {"run_index": r["idx"], "label": t.get("label"),
            "document_head": t["text"][:500],
            "episodes": [{"modes": e["modes"], "ops": e["ops"][:6],
                          "ops_total": len(e["ops"])} for e in eps]}


def describe(prop):
    if prop == "C17":
        return {
            "level": "exploration",
            "rule": ("one case = one stored document in the documented YAML "
                     "format (the 9 shipped files, then random valid "
                     "documents from dsim.docgen: 1-5 subnets, trees/stars/"
                     "chains/cliques/random/split graphs, 1-3 public "
                     "subnets, asymmetric allow-lists incl. empty, host "
                     "deny-lists, prob 0..1.0, fractional costs, values of "
                     "any sign, optional step limit, shuffled host and "
                     "section order, flow and block lists); it is loaded "
                     "with nasim.load_scenario and compared field by field "
                     "with dsim.reader's independent reading of the text, "
                     "then two short model-guided simulated episodes run on "
                     "nasim.load(path) with the C01/C02/C05/C06 relations "
                     "evaluated against the file-derived configuration; "
                     "finally single-byte doc_flip faults (digit -> digit, "
                     "letter -> letter) are applied and, where the damaged "
                     "document is still valid for the narrow detector and "
                     "the loader accepts it, the loaded scenario must equal "
                     "the independent reading of the *damaged* text.  "
                     "distinct = digest of the document text; every case is "
                     "non-trivial."),
            "probes": ["accepted", "exploit_prob_1", "empty_escalations",
                       "negative_host_value", "no_step_limit",
                       "host_deny_lists"],
            "assumptions": [
                "sampling of documents, not enumeration",
                "the emitter only uses syntax found in the tutorial or the "
                "shipped files",
                "dsim.reader is the independent reading of the document "
                "(yaml.safe_load + regular-expression addresses)"],
            "real": ["nasim.scenarios.loader / utils / scenario / host",
                     "PyYAML", "nasim.envs for the episodes"],
            "stub": ["uniform source behind nasim.envs.network.np.random"],
        }
    return {
        "level": "fault_enumeration",
        "rule": ("one case = one valid base document (the 9 shipped files, "
                 "then random valid documents) to which every applicable "
                 "operator of the corruption catalogue (%d operators, each "
                 "breaking exactly one rule listed in the property "
                 "statement, at a random eligible site) is applied one at a "
                 "time, plus torn writes (truncation at a random byte "
                 "offset, scored only when the remaining text is "
                 "unparsable, not a mapping, or lacks a required section) "
                 "and single-byte flips (digit -> digit, letter -> letter; "
                 "scored only when dsim.docsim.broken_rule, a narrow "
                 "detector of exactly the catalogue rules, finds a broken "
                 "rule in the damaged document); "
                 "nasim.load_scenario must raise.  The catalogue x base "
                 "product is enumerated, sites are sampled.  distinct = "
                 "digest of the base document; every case is non-trivial."
                 % len(docsim.OPERATORS)),
        "probes": [],
        "assumptions": [
            "the catalogue lists single-rule violations taken from the "
            "property statement; rules the statement does not list are "
            "never demanded",
            "torn documents that still contain every required section give "
            "no verdict (counted as unclassified)"],
        "real": ["nasim.scenarios.loader / utils", "PyYAML"],
        "stub": [],
    }
