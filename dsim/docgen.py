"""Random *valid* scenario documents in the documented YAML format, written by
our own emitter (only syntax the tutorial or the shipped files use).

gen_doc(rng, **knobs) -> doc   (ordered dict of sections, addresses as the
                                canonical strings "(s, h)")
emit(doc, rng=None)   -> YAML text
"""
import copy
import random

OS_POOL = ["linux", "windows", "bsd", "macos", "win", "linux64", "Linux",
           "os x", "x"]
SRV_POOL = ["ssh", "ftp", "http", "samba", "smtp", "rdp", "https", "sshd",
            "SSH", "web server", "ssh-2", "sql_db", "s", "w"]
PROC_POOL = ["tomcat", "daclsvc", "schtask", "cron", "crond", "Tomcat",
             "task scheduler", "p"]

SECTION_ORDER = ["subnets", "topology", "sensitive_hosts", "os", "services",
                 "processes", "exploits", "privilege_escalation",
                 "service_scan_cost", "os_scan_cost", "subnet_scan_cost",
                 "process_scan_cost", "host_configurations", "firewall",
                 "step_limit"]


def A(s, h):
    return f"({s}, {h})"


def SP(rng, s, h):
    """An address in one of several spellings (only used for keys the
    documentation says are parsed as tuples: sensitive hosts, host
    firewalls)."""
    return rng.choice([f"({s}, {h})", f"({s}, {h})", f"({s}, {h})",
                       f"({s},{h})", f"( {s}, {h} )", f"({s} , {h})"])


def reader_addr(k):
    import re
    m = re.match(r"^\(\s*(-?\d+)\s*,\s*(-?\d+)\s*\)$", k.strip())
    return int(m.group(1)), int(m.group(2))


def _topology(rng, n, shape, n_public):
    """Symmetric, self-connected adjacency matrix over n subnets + internet."""
    T = [[1 if i == j else 0 for j in range(n + 1)] for i in range(n + 1)]

    def link(a, b):
        T[a][b] = T[b][a] = 1
    subs = list(range(1, n + 1))
    if shape == "chain":
        for i in range(1, n):
            link(i, i + 1)
    elif shape == "star":
        for i in range(2, n + 1):
            link(1, i)
    elif shape == "tree":
        for i in range(2, n + 1):
            link(i, rng.randint(1, i - 1))
    elif shape == "clique":
        for i in subs:
            for j in subs:
                if i < j:
                    link(i, j)
    elif shape == "random":
        for i in range(2, n + 1):
            link(i, rng.randint(1, i - 1))
        for _ in range(rng.randint(0, n)):
            a, b = rng.choice(subs), rng.choice(subs)
            if a != b:
                link(a, b)
    elif shape == "split":       # two components (one may be unreachable)
        cut = max(1, n // 2)
        for i in range(2, cut + 1):
            link(i, rng.randint(1, i - 1))
        for i in range(cut + 2, n + 1):
            link(i, rng.randint(cut + 1, i - 1))
    else:
        raise ValueError(shape)
    publics = [1] if shape in ("chain", "star", "tree") else \
        [rng.choice(subs)]
    while len(publics) < min(n_public, n):
        s = rng.choice(subs)
        if s not in publics:
            publics.append(s)
    for s in publics:
        link(0, s)
    return T


def gen_doc(rng, shape=None, max_subnets=5, max_hosts=4, n_public=None,
            deny_rate=0.3, open_firewall=None, step_limit="mix",
            cost_domain="any", big=False, asym=False, like=None):
    if big:
        max_subnets, max_hosts = 8, 6
    n = rng.randint(1, max_subnets)
    if shape is None:
        shape = rng.choice(["chain", "star", "tree", "tree", "clique",
                            "random", "random", "split"])
    if n_public is None:
        n_public = rng.choice([1, 1, 1, 2, 2, 3])
    sizes = [rng.randint(1, max_hosts) for _ in range(n)]
    r2 = random.Random(rng.getrandbits(48))
    wide = None
    if like is None and not asym and r2.random() < 0.05:
        # two-digit subnet and host numbers
        if r2.random() < 0.5:
            n = r2.randint(10, 12)
            sizes = [r2.randint(1, 2) for _ in range(n)]
            wide = "subnets"
        else:
            n = min(n, 3)
            sizes = [r2.randint(1, 2) for _ in range(n)]
            sizes[r2.randrange(n)] = r2.randint(11, 13)
            wide = "hosts"
    uniform_hosts = like is None and r2.random() < 0.1
    if like is not None:
        # same names, number of subnets and largest subnet (= same vector
        # layout), other subnet sizes
        n = len(like["subnets"])
        sizes = list(like["subnets"])
        rng.shuffle(sizes)
        if sizes == list(like["subnets"]) and n > 1:
            sizes = sizes[1:] + sizes[:1]
    T = _topology(rng, n, shape, n_public)
    if asym and n >= 2:
        # outside the documented assumption (the loader accepts it): some
        # connections between network subnets exist in one direction only
        for _ in range(rng.randint(1, 3)):
            a, b = rng.sample(range(1, n + 1), 2)
            if T[a][b] == 1:
                T[b][a] = 0
            else:
                T[a][b] = 1
    oss = rng.sample(OS_POOL, rng.randint(1, 3))
    srvs = rng.sample(SRV_POOL, rng.randint(1, 4))
    procs = rng.sample(PROC_POOL, rng.randint(1, 3))
    if rng.random() < 0.1:
        # name coincidence: a process called like a service
        procs[0] = srvs[0]
    # names that differ only in case are different names
    for lst, a, b in ((oss, "linux", "Linux"), (srvs, "ssh", "SSH"),
                      (procs, "tomcat", "Tomcat")):
        if a in lst and b not in lst and rng.random() < 0.3:
            lst.append(b)
    if like is not None:
        oss, srvs, procs = (list(like["os"]), list(like["services"]),
                            list(like["processes"]))
    addrs = [(s + 1, h) for s in range(n) for h in range(sizes[s])]

    doc = {}
    doc["subnets"] = list(sizes)
    doc["topology"] = T
    # sensitive hosts
    k = rng.choice([1, 1, 2, 2, 3, len(addrs)])
    k = max(1, min(k, len(addrs)))
    sens = rng.sample(addrs, k)
    if wide == "hosts":
        big_s = max(range(n), key=lambda i: sizes[i]) + 1
        if (big_s, 10) not in sens:
            sens.append((big_s, 10))       # a two-digit host number
    elif wide == "subnets" and not any(a[0] >= 10 for a in sens):
        sens.append((10, 0))
    doc["sensitive_hosts"] = {
        A(*a): rng.choice([100, 10, 1, 50, 0.5, 2.5, 1000, 100.0, 1.0,
                           20000000]) for a in sens}
    sens_value = {reader_addr(k): v
                  for k, v in doc["sensitive_hosts"].items()}
    if rng.random() < 0.1:
        # other spellings of an address are valid where the key is parsed
        doc["sensitive_hosts"] = {
            SP(rng, *reader_addr(k)): v
            for k, v in doc["sensitive_hosts"].items()}
    doc["os"] = oss
    doc["services"] = srvs
    doc["processes"] = procs
    # exploits
    exploits = {}
    for i in range(rng.randint(1, 5)):
        srv = rng.choice(srvs)
        os_ = rng.choice(oss + ["none", "None", "none"])
        if cost_domain == "ge1":
            cost = rng.choice([1, 1, 2, 3, 1.5])
        else:
            cost = rng.choice([1, 1, 2, 3, 0.5, 1.5, 0.1, 1.0, 2.0])
        ename = f"e{i}_{srv}"
        if rng.random() < 0.03:
            # name coincidences with the built-in actions
            ename = rng.choice(["subnet_scan", "service_scan", "os_scan",
                                "process_scan", "noop"])
            if ename in exploits:
                ename = f"e{i}_{srv}"
        exploits[ename] = {
            "service": srv, "os": os_,
            "prob": rng.choice([0, 0.3, 0.5, 0.8, 0.999, 1.0, 1.0, 1,
                                round(rng.random(), 3)]),
            "cost": cost,
            "access": rng.choice(["user", "root", "user", "root", 1, 2])}
    doc["exploits"] = exploits
    privescs = {}
    for i in range(rng.choice([0, 1, 1, 2, 2, 3])):
        proc = rng.choice(procs)
        os_ = rng.choice(oss + ["none", "None"])
        if cost_domain == "ge1":
            cost = rng.choice([1, 1, 2, 1.5])
        else:
            cost = rng.choice([1, 1, 2, 0.5, 1.5])
        privescs[f"pe{i}_{proc}"] = {
            "process": proc, "os": os_,
            "prob": rng.choice([1.0, 1.0, 1, 0.5, 0.9, 0,
                                round(rng.random(), 3)]),
            "cost": cost,
            "access": rng.choice(["root", "root", "root", 2, "user", 1])}
    doc["privilege_escalation"] = privescs
    scan_costs = [1, 1, 2, 3, 1.5] if cost_domain == "ge1" else \
        [0, 1, 1, 2, 0.5, 3, 0.3]
    for kname in ("service_scan_cost", "os_scan_cost", "subnet_scan_cost",
                  "process_scan_cost"):
        doc[kname] = rng.choice(scan_costs)
    # hosts
    hosts = {}
    host_order = list(addrs)
    if rng.random() < 0.2:
        rng.shuffle(host_order)     # declaration order is free in the format
    template = None
    for a in host_order:
        h = {"os": rng.choice(oss),
             "services": rng.sample(srvs, rng.randint(1, len(srvs))),
             "processes": rng.sample(procs, rng.randint(0, len(procs)))}
        if rng.random() < deny_rate:
            fw = {}
            for src in rng.sample(addrs, rng.randint(1, min(3, len(addrs)))):
                fw[SP(rng, *src)] = rng.sample(srvs,
                                               rng.randint(0, len(srvs)))
            h["firewall"] = fw
        if uniform_hosts:
            # every machine is installed from the same image (what the
            # shipped 'tiny' looks like): identical configuration blocks,
            # deny list included
            if template is None:
                if "firewall" not in h and r2.random() < 0.6:
                    h["firewall"] = {
                        SP(rng, *src): rng.sample(srvs, rng.randint(
                            1, len(srvs)))
                        for src in rng.sample(addrs, min(2, len(addrs)))}
                template = copy.deepcopy(h)
            h = copy.deepcopy(template)
        if a in sens:
            if rng.random() < 0.3:
                h["value"] = sens_value[a]
                if rng.random() < 0.3:
                    # "must match": the loader accepts a value that is equal
                    # up to floating-point noise (math.isclose)
                    h["value"] = float(sens_value[a]) * (1 + 1e-12)
        else:
            r = rng.random()
            if r < 0.5:
                if cost_domain == "ge1":
                    h["value"] = rng.choice([0, 1, -1, 0.5, -10, 1.0])
                else:
                    h["value"] = rng.choice([0, 1, -1, 5, 0.5, -2.5, 20, -100])
        hosts[A(*a)] = h
    doc["host_configurations"] = hosts
    # subnet firewall: a rule in each direction for every connected pair
    if open_firewall is None:
        open_firewall = rng.random() < 0.3
    fw = {}
    for i in range(n + 1):
        for j in range(n + 1):
            if i != j and (T[i][j] == 1 or T[j][i] == 1):
                if open_firewall or rng.random() < 0.35:
                    allowed = list(srvs)
                else:
                    allowed = rng.sample(srvs, rng.randint(0, len(srvs)))
                fw[A(i, j)] = allowed
    doc["firewall"] = fw
    if step_limit == "mix":
        r = rng.random()
        if r < 0.3:
            pass
        elif r < 0.7:
            doc["step_limit"] = rng.randint(1, 40)
        else:
            doc["step_limit"] = rng.choice([100, 1000, 2000])
    elif isinstance(step_limit, int):
        doc["step_limit"] = step_limit
    return doc


# --------------------------------------------------------------------------
# emitter
# --------------------------------------------------------------------------
class Q(str):
    """A string that must be emitted quoted (so that it stays a string)."""


def _scalar(v):
    if isinstance(v, Q):
        return '"' + str(v).replace('"', '\\"') + '"'
    if isinstance(v, bool):
        return "true" if v else "false"
    if isinstance(v, (int, float)):
        return repr(v)
    if v is None:
        return "null"
    return str(v)


def _flow(lst):
    return "[" + ", ".join(_scalar(x) for x in lst) + "]"


def _list(key, lst, indent, rng):
    pad = " " * indent
    if lst and rng is not None and rng.random() < 0.3:
        out = [f"{pad}{key}:"]
        for x in lst:
            out.append(f"{pad}  - {_scalar(x)}")
        return out
    return [f"{pad}{key}: {_flow(lst)}"]


def _emit_value(key, v, indent, rng):
    pad = " " * indent
    if isinstance(v, dict):
        if not v:
            return [f"{pad}{key}: {{}}"]
        out = [f"{pad}{key}:"]
        for k2, v2 in v.items():
            out.extend(_emit_value(k2, v2, indent + 2, rng))
        return out
    if isinstance(v, list):
        if v and all(isinstance(r, list) for r in v):
            rows = [_flow(r) for r in v]
            sep = ",\n" + pad + " " * (len(str(key)) + 3)
            return [f"{pad}{key}: [" + sep.join(rows) + "]"]
        return _list(key, v, indent, rng)
    return [f"{pad}{key}: {_scalar(v)}"]


def _emit_hosts_with_anchors(hosts, rng):
    """host_configurations with YAML anchors/aliases for repeated blocks."""
    import json
    lines = ["host_configurations:"]
    seen = {}
    for k, h in hosts.items():
        sig = json.dumps(h, sort_keys=True, default=str)
        if sig in seen:
            lines.append(f"  {k}: *{seen[sig]}")
            continue
        name = f"cfg{len(seen)}"
        seen[sig] = name
        lines.append(f"  {k}: &{name}")
        for k2, v2 in h.items():
            lines.extend(_emit_value(k2, v2, 4, rng))
    return lines


def emit(doc, rng=None):
    keys = list(doc.keys())
    if rng is not None and rng.random() < 0.15:
        rng.shuffle(keys)
    lines = []
    if rng is not None and rng.random() < 0.5:
        lines.append("# generated by dsim.docgen")
    anchors = rng is not None and rng.random() < 0.06
    hc = doc.get("host_configurations")
    if rng is not None and isinstance(hc, dict) and len(hc) >= 2 and \
            all(isinstance(h, dict) for h in hc.values()):
        import json
        sigs = [json.dumps(h, sort_keys=True, default=str)
                for h in hc.values()]
        if len(set(sigs)) * 2 <= len(sigs) and rng.random() < 0.6:
            anchors = True        # repeated blocks are written once
    for k in keys:
        if k == "host_configurations" and anchors and \
                isinstance(doc[k], dict) and doc[k] and \
                all(isinstance(h, dict) for h in doc[k].values()):
            lines.extend(_emit_hosts_with_anchors(doc[k], rng))
        else:
            lines.extend(_emit_value(k, doc[k], 0, rng))
    return "\n".join(lines) + "\n"


def clone(doc):
    return copy.deepcopy(doc)
