"""Independent reading of a scenario source into a Config.

For YAML scenarios the *text* is parsed with yaml.safe_load and interpreted by
this module (addresses with a regular expression, never with the loader's
code); for generated scenarios the source is the generator's scenario_dict.
A Config is a deep snapshot: nothing in it aliases objects of the SUT.
"""
import re
import yaml

ADDR_RE = re.compile(r"^\(\s*(-?\d+)\s*,\s*(-?\d+)\s*\)$")

ACCESS = {"user": 1, "root": 2, 1: 1, 2: 2}


def parse_addr(key):
    if isinstance(key, tuple):
        return (int(key[0]), int(key[1]))
    m = ADDR_RE.match(str(key).strip())
    if not m:
        raise ValueError(f"not an address: {key!r}")
    return (int(m.group(1)), int(m.group(2)))


def none_name(x):
    """'none' / 'None' / YAML null -> None."""
    if x is None:
        return None
    if isinstance(x, str) and x.lower() == "none":
        return None
    return x


class Config:
    """What the scenario source says.  All containers are plain Python."""

    def __init__(self):
        self.name = None
        self.subnets = []        # index 0 = internet (size 1)
        self.topology = []       # list of lists of int
        self.os = []
        self.services = []
        self.processes = []
        self.hosts = {}          # addr -> dict(os, services(set), processes(set), value, discovery_value, firewall{src: set})
        self.order = []          # host addresses in row order
        self.firewall = {}       # (src, dst) -> set(services)
        self.sensitive = {}      # addr -> value
        self.exploits = {}       # name -> dict(service, os, prob, cost, access)
        self.privescs = {}       # name -> dict(process, os, prob, cost, access)
        self.scan_cost = {}      # 'service_scan' | 'os_scan' | 'subnet_scan' | 'process_scan' -> cost
        self.step_limit = None
        self.bounds = None       # (num subnets incl. internet, max hosts)
        self.generated = False

    # ---- derived --------------------------------------------------------
    def public(self, subnet):
        return self.topology[subnet][0] == 1

    def connected(self, a, b):
        return self.topology[a][b] == 1

    @property
    def symmetric(self):
        """The documented assumption on topologies.  Where it does not hold
        (the loader does not enforce it) only orientation-free clauses are
        evaluated."""
        n = len(self.topology)
        return all(self.topology[i][j] == self.topology[j][i]
                   for i in range(n) for j in range(n))

    def vector_size(self):
        return (self.bounds[0] + self.bounds[1] + 6 + len(self.os)
                + len(self.services) + len(self.processes))

    def layout_signature(self):
        return (tuple(self.bounds), tuple(self.os), tuple(self.services),
                tuple(self.processes))

    def n_hosts(self):
        return len(self.order)

    def summary(self):
        return {"name": self.name, "subnets": self.subnets[1:],
                "hosts": len(self.order), "os": len(self.os),
                "services": len(self.services),
                "processes": len(self.processes),
                "exploits": len(self.exploits),
                "privescs": len(self.privescs),
                "sensitive": sorted(map(list, self.sensitive)),
                "step_limit": self.step_limit,
                "generated": self.generated}


_FAST_CHECKED = [0]


def from_yaml_text(text, name=None, fast=False):
    """Our own reading of a scenario document in the documented format.

    fast: parse with libyaml's scanner (same resolver and constructor as
    yaml.safe_load); only used for documents the harness generated itself,
    and every 16th such document is parsed both ways and compared."""
    if fast and hasattr(yaml, "CSafeLoader"):
        doc = yaml.load(text, Loader=yaml.CSafeLoader)
        _FAST_CHECKED[0] += 1
        if _FAST_CHECKED[0] % 16 == 1 and doc != yaml.safe_load(text):
            raise RuntimeError("libyaml and PyYAML disagree on a generated "
                               "document (harness self-check)")
    else:
        doc = yaml.safe_load(text)
    c = Config()
    c.name = name
    c.subnets = [1] + [int(s) for s in doc["subnets"]]
    c.topology = [[int(x) for x in row] for row in doc["topology"]]
    c.os = list(doc["os"])
    c.services = list(doc["services"])
    c.processes = list(doc["processes"])
    c.sensitive = {parse_addr(k): float(v)
                   for k, v in doc["sensitive_hosts"].items()}
    for ename, e in doc["exploits"].items():
        c.exploits[ename] = {
            "service": e["service"], "os": none_name(e["os"]),
            "prob": float(e["prob"]), "cost": e["cost"],
            "access": ACCESS[e["access"]]}
    for pname, p in (doc["privilege_escalation"] or {}).items():
        c.privescs[pname] = {
            "process": none_name(p["process"]), "os": none_name(p["os"]),
            "prob": float(p["prob"]), "cost": p["cost"],
            "access": ACCESS[p["access"]]}
    c.scan_cost = {"service_scan": doc["service_scan_cost"],
                   "os_scan": doc["os_scan_cost"],
                   "subnet_scan": doc["subnet_scan_cost"],
                   "process_scan": doc["process_scan_cost"]}
    for k, h in doc["host_configurations"].items():
        addr = parse_addr(k)
        if addr in c.sensitive:
            value = c.sensitive[addr]
        else:
            value = float(h.get("value", 0))
        fw = {}
        for src, srvs in (h.get("firewall") or {}).items():
            fw.setdefault(parse_addr(src), set()).update(srvs)
        c.hosts[addr] = {"os": h["os"], "services": set(h["services"]),
                         "processes": set(h["processes"]),
                         "value": value, "discovery_value": 0.0,
                         "firewall": fw}
        c.order.append(addr)
    c.firewall = {parse_addr(k): set(v) for k, v in doc["firewall"].items()}
    c.step_limit = doc.get("step_limit", None)
    c.bounds = (len(c.subnets), max(c.subnets))
    return c


def from_generated(scenario):
    """Config of a generated scenario: the generator's scenario_dict is the
    source (deep-copied)."""
    sd = scenario.scenario_dict
    c = Config()
    c.generated = True
    c.name = scenario.name
    c.subnets = [int(s) for s in sd["subnets"]]
    c.topology = [[int(x) for x in row] for row in sd["topology"]]
    c.os = list(sd["os"])
    c.services = list(sd["services"])
    c.processes = list(sd["processes"])
    c.sensitive = {tuple(k): float(v)
                   for k, v in sd["sensitive_hosts"].items()}
    for ename, e in sd["exploits"].items():
        c.exploits[ename] = {"service": str(e["service"]),
                             "os": None if e["os"] is None else str(e["os"]),
                             "prob": float(e["prob"]), "cost": e["cost"],
                             "access": int(e["access"])}
    for pname, p in sd["privilege_escalation"].items():
        c.privescs[pname] = {"process": str(p["process"]),
                             "os": None if p["os"] is None else str(p["os"]),
                             "prob": float(p["prob"]), "cost": p["cost"],
                             "access": int(p["access"])}
    c.scan_cost = {"service_scan": sd["service_scan_cost"],
                   "os_scan": sd["os_scan_cost"],
                   "subnet_scan": sd["subnet_scan_cost"],
                   "process_scan": sd["process_scan_cost"]}
    for addr, h in sd["host"].items():
        oss = [o for o, v in h.os.items() if v]
        c.hosts[tuple(addr)] = {
            "os": oss[0] if len(oss) == 1 else oss,
            "services": {s for s, v in h.services.items() if v},
            "processes": {p for p, v in h.processes.items() if v},
            "value": float(h.value),
            "discovery_value": float(h.discovery_value),
            "firewall": {tuple(k): set(v) for k, v in h.firewall.items()}}
        c.order.append(tuple(addr))
    c.firewall = {tuple(k): set(v) for k, v in sd["firewall"].items()}
    c.step_limit = sd.get("step_limit", None)
    b = sd.get("address_space_bounds", None)
    c.bounds = tuple(b) if b is not None else (len(c.subnets), max(c.subnets))
    return c
