"""Oracles of the single-environment engine.  Every clause asserts only what
its own property states (DESIGN.md section 6); pre- and post-state are read
from the real environment, never carried forward by a model."""
import random as _pyrandom

import numpy as np

from . import core, model
from .core import Violation
from .model import act_of, feq

FLAG_KEYS = ("connection_error", "permission_error", "undefined_error")

ENTITLED = {
    "exploit": ("compromised", "access", "os", "services", "value"),
    "privesc": ("compromised", "access"),
    "service_scan": ("services",),
    "os_scan": ("os",),
    "process_scan": ("processes", "access"),
    "subnet_scan": ("compromised",),
}


class EpisodeLedger:
    """History oracle of C05: every value is paid at most once per episode
    and rewards are conserved."""

    def __init__(self, cfg):
        self.cfg = cfg
        self.root_paid = set()
        self.disc_paid = set()
        self.sum_reward = 0.0
        self.sum_paid = 0.0
        self.sum_cost = 0.0
        self.max_status = None
        # discovery as the episode history defines it: public hosts at
        # reset, then the hosts covered by every successful subnet scan
        self.hist_disc = {a for a in cfg.order if cfg.public(a[0])}


def _uniform_draws(log):
    return [v for f, v in log if v is not None]


class Oracles:
    def __init__(self, sim):
        self.sim = sim
        self.cfg = sim.cfg
        self.props = sim.props
        self.L = sim.layout
        self.P = lambda p: p in self.props
        self.twins = bool(self.props & {"C01", "C02", "C03", "C05", "C07",
                                        "C08", "C13", "C04", "C06"}) and \
            not getattr(sim, "quiet", False)
        self.boot_done = False

    # ------------------------------------------------------------------
    def fail(self, clause, msg, **detail):
        raise Violation(clause, msg, **detail)

    def probe(self, name):
        self.sim.counters.hit("probe." + name)

    # ------------------------------------------------------------------
    def act(self, obj):
        """The action as the *scenario source* defines it: type, target and
        name come from the Action object the environment executes; service /
        process, OS, probability, cost and granted access of an exploit or
        escalation come from the source's definition of that name."""
        a = act_of(obj)
        cfg = self.cfg
        want = getattr(obj, "_dsim_intended", None)
        if want is not None and want[0] != "noop" and \
                (a.kind, a.target, a.name) != tuple(want):
            # the decoder returned another action than the one the supplied
            # encoding documents: the step is judged as the documented action
            self.sim.counters.hit("decode_mismatch")
            a = self.sim._act_of_key(tuple(want)) or a
        if a.kind == "exploit" and a.name in cfg.exploits:
            e = cfg.exploits[a.name]
            a = a._replace(service=e["service"], os=e["os"],
                           prob=float(e["prob"]), cost=e["cost"],
                           access=int(e["access"]))
        elif a.kind == "privesc" and a.name in cfg.privescs:
            e = cfg.privescs[a.name]
            a = a._replace(process=e["process"], os=e["os"],
                           prob=float(e["prob"]), cost=e["cost"],
                           access=int(e["access"]))
        elif a.kind in cfg.scan_cost:
            a = a._replace(prob=1.0, cost=cfg.scan_cost[a.kind])
        return a

    def pre_of(self, state):
        """Status and tensor copy of a state object, read once per object: a
        State is never legitimately modified after it was produced, so a
        later transition from the same object is judged against what the
        object held when the simulator first saw it (look-ahead that writes
        into its argument cannot launder the pre-state)."""
        cache = self.sim.__dict__.setdefault("_pre_cache", {})
        ent = cache.get(id(state))
        if ent is not None and ent[0]() is state:
            return ent[1], ent[2]
        st = sim_read(self.sim, state)
        t = state.tensor.copy()
        if len(cache) > 64:
            cache.clear()
        # a weak reference: the harness must not keep alive what the caller
        # has dropped (when objects die is part of the simulation)
        import weakref
        try:
            cache[id(state)] = (weakref.ref(state), st, t)
        except TypeError:
            cache[id(state)] = ((lambda s=state: s), st, t)
        return st, t

    # ------------------------------------------------------------------
    # reset
    # ------------------------------------------------------------------
    def after_reset(self, out, post, first):
        sim, cfg, env = self.sim, self.cfg, self.sim.env
        init = model.initial_status(cfg)
        sim._last_episode_status = post
        if self.P("C10"):
            self._c10_reset_tuple(out)
        obs = out[0] if isinstance(out, tuple) and len(out) >= 1 else None
        if self.P("C03"):
            for a in cfg.order:
                if bool(post[a][2]) != cfg.public(a[0]):
                    self.fail("C03.reset", "after reset a host is discovered"
                              " iff its subnet is public", host=a,
                              status=post[a])
            self._c03_invariants(post, "reset")
        if self.P("C04"):
            if post != init:
                bad = [a for a in cfg.order if post[a] != init[a]]
                self.fail("C04.reset", "reset did not restore the initial "
                          "status", hosts=bad[:5],
                          observed=[post[a] for a in bad[:5]],
                          expected=[init[a] for a in bad[:5]])
            if env.steps != 0:
                self.fail("C04.reset", "env.steps not zero after reset",
                          steps=env.steps)
            self._c04_config(env.current_state, "reset")
            if not first and sim.init_obs is not None and obs is not None:
                if not _same_array(obs, sim.init_obs):
                    self.fail("C04.reset", "reset() returned an observation "
                              "different from the initial one")
        if self.P("C06"):
            if env.steps != 0:
                self.fail("C06.limit", "env.steps not zero after reset",
                          steps=env.steps)
        if self.P("C08") and obs is not None:
            self._c08_initial(obs, env.current_state)
            ctor = getattr(sim, "ctor_last_obs", None)
            if first and ctor is not None:
                # what the constructor left in env.last_obs is the initial
                # observation of the environment's own mode, too
                self._c08_initial(ctor.reshape(-1) if sim.flat_obs else ctor,
                                  env.current_state)
        if self.P("C09"):
            self._c09_state(env.current_state, post)
            if first:
                self._c09_decode_initial(env.current_state)
            # the readable decoders must agree with the documented layout
            # from the first state on (not only at query points)
            self._c09_roundtrip(env.current_state)
            if obs is not None:
                self._c09_obs_shape(obs)
        if self.P("C10") and obs is not None:
            self._c10_obs(obs)
        if self.P("C11") and first:
            self._c11_boot()
        if self.P("C11") and not first:
            self._c11_mask()

    # ------------------------------------------------------------------
    # one transition through generative_step
    # ------------------------------------------------------------------
    def transition(self, state, obj, x, draws, real=False, background=False,
                   poison=False, tag=""):
        """Run generative_step(state, x) under scripted draws and check the
        transition-level clauses.  Returns the record."""
        sim, cfg, env = self.sim, self.cfg, self.sim.env
        act = self.act(obj)
        pre, pre_t = self.pre_of(state)
        snap = None
        if self.P("C13"):
            snap = (env.current_state.tensor.tobytes(),
                    env.last_obs.tensor.tobytes(), env.steps,
                    id(env.current_state), id(env.last_obs))
        (next_state, obs, reward, done, info), log, unscr = \
            sim._gstep(state, x, draws)
        rec = {"act": act, "pre": pre, "pre_t": pre_t, "draws": draws,
               "log": log, "unscripted": unscr, "next_state": next_state,
               "post_t": next_state.tensor, "obs2d": obs.tensor,
               "reward": reward, "done": done, "info": info, "real": False,
               "tag": tag, "state_obj": state}
        rec["post"] = sim_read(sim, next_state)
        rec["info_snap"] = _canon_info(info)
        if self.P("C13"):
            self._c13_pure(rec, snap, poison)
        self._check_transition(rec)
        return rec

    # ------------------------------------------------------------------
    # a real step (with twins and companion generative step)
    # ------------------------------------------------------------------
    def real_step(self, obj, x, plain, draws, interpose=None,
                  doc_noop=False):
        sim, cfg, env = self.sim, self.cfg, self.sim.env
        act = self.act(obj)
        cur = env.current_state
        if self.P("C04"):
            self._c04_between_ops(cur)
        plain_x = plain if sim.table.flat else list(plain)
        if getattr(obj, "_dsim_custom", False):
            plain_x = obj       # a self-built Action object: use it everywhere
        lo = hi = None
        comp = None
        comp_first = self.P("C13") and (len(sim.ops) % 2 == 0)
        if comp_first:
            # the companion is sometimes the very first look at this
            # (state, action) pair, before the twins
            comp = self.transition(cur, obj, plain_x, draws, tag="companion")
        if self.twins and act.kind != "noop":
            lo, hi = self._twins(cur, obj, plain_x, act)
        if self.P("C13") and not comp_first:
            comp = self.transition(cur, obj, plain_x, draws, tag="companion")
        if self.P("C13"):
            for e in interpose or ():
                st2 = cur if e["src"] == "cur" else sim.states.get(e["src"])
                if st2 is None:
                    continue
                p2, o2 = sim.resolve(e)
                if o2 is None:
                    continue
                sim.counters.hit("fault.interposed_lookahead")
                r2 = self.transition(st2, o2,
                                     p2 if sim.table.flat else list(p2),
                                     [float.fromhex(h) for h in e["u"]],
                                     background=True, tag="interposed")
                if "sid" in e:
                    sim.states[e["sid"]] = r2["next_state"]
                    sim.next_sid = max(sim.next_sid, e["sid"] + 1)
        pre, pre_t = self.pre_of(cur)
        sim.rnd.push(draws)
        try:
            out = env.step(x)
        except Exception as e:
            from .envsim import SutError
            raise SutError("step", e)
        log = list(sim.rnd.log)
        sim.n_since_reset += 1
        if self.P("C10"):
            self._c10_step_tuple(out)
        if not (isinstance(out, tuple) and len(out) == 5):
            from .envsim import SutError
            raise SutError("step", TypeError("step did not return 5 values"))
        obs_arr, reward, done, trunc, info = out
        post = sim_read(sim, env.current_state)
        rec = {"act": act, "pre": pre, "pre_t": pre_t, "draws": draws,
               "log": log, "unscripted": sim.rnd.unscripted,
               "next_state": env.current_state,
               "post_t": env.current_state.tensor,
               "obs2d": self._as2d(obs_arr), "obs_out": obs_arr,
               "reward": reward, "done": done, "trunc": trunc, "info": info,
               "real": True, "post": post, "tag": "step", "state_obj": cur,
               "doc_noop": doc_noop}
        sim.note_state(post)
        self._check_transition(rec)
        # ---- real-step-only clauses -----------------------------------
        if self.P("C04"):
            if not np.array_equal(cur.tensor, pre_t):
                self.fail("C04.monotone", "step() modified the previous "
                          "state object in place")
        if self.P("C06"):
            self._c06_limit(rec)
        if self.P("C05"):
            self._c05_ledger(rec)
        if self.P("C13") and comp is not None:
            self._c13_agree(comp, rec)
        if self.P("C07") and lo is not None:
            self._c07_twins(lo, hi, rec)
        if self.P("C08") and lo is not None and not sim.fully_obs:
            pass
        if self.P("C09"):
            self._c09_obs_shape(obs_arr)
        if self.P("C10"):
            self._c10_obs(obs_arr)
        if self.P("C11"):
            self._c11_mask()
        sim.cur_sid = sim.keep_state(env.current_state)
        sim._last_episode_status = post
        if done or trunc:
            sim.episode_over = True
            if done:
                self.probe("goal_reached")
            if trunc:
                self.probe("limit_reached")
        return rec

    def _twins(self, cur, obj, plain_x, act):
        """Two generative steps from the current state with the first draw
        just below / just above prob, decoys on the opposite side."""
        sim = self.sim
        p = act.prob
        fl = sim_twin_rng(sim)
        if p <= 0.0:
            u_lo = None
        else:
            eps = fl.choice([1e-9, p / 2, p * fl.random()])
            u_lo = max(0.0, p - max(eps, 1e-12))
            if u_lo >= p:
                u_lo = p / 2
        if p >= 1.0:
            u_hi = None
        else:
            eps = fl.choice([1e-9, (1 - p) / 2, (1 - p) * fl.random()])
            u_hi = min(0.9999999999, p + max(eps, 1e-12))
            if u_hi <= p:
                u_hi = (p + 1) / 2
        lo = hi = None
        if u_lo is not None:
            d = u_hi if u_hi is not None else 0.999999
            sim.counters.hit("fault.decoy_draw")
            lo = self.transition(cur, obj, plain_x, [u_lo, d, d],
                                 poison=True, tag="twin_lo")
        else:
            # prob == 0: any positive draw fails
            sim.counters.hit("fault.chance_boundary")
            lo = self.transition(cur, obj, plain_x, [1e-12, 0.0, 0.0],
                                 poison=True, tag="twin_lo_p0")
        if u_hi is not None:
            d = u_lo if u_lo is not None else 0.0
            sim.counters.hit("fault.decoy_draw")
            hi = self.transition(cur, obj, plain_x, [u_hi, d, d],
                                 poison=True, tag="twin_hi")
        else:
            sim.counters.hit("fault.chance_boundary")
            hi = self.transition(cur, obj, plain_x,
                                 [0.9999999999, 0.0, 0.0],
                                 poison=True, tag="twin_hi_p1")
        return lo, hi

    def _as2d(self, obs_arr):
        cfg = self.cfg
        a = np.asarray(obs_arr)
        want = (len(cfg.order) + 1, self.L.size)
        if a.shape == want:
            return a
        if a.size == want[0] * want[1]:
            return a.reshape(want)
        return a

    # ------------------------------------------------------------------
    # transition-level clauses
    # ------------------------------------------------------------------
    def _check_transition(self, rec):
        sim, cfg = self.sim, self.cfg
        act, pre, post, info = rec["act"], rec["pre"], rec["post"], rec["info"]
        success = bool(info.get("success"))
        rec["success"] = success
        udraws = _uniform_draws(rec["log"])
        rec["u"] = udraws[0] if udraws else None
        hp = model.host_pre(cfg, pre, act)
        npre = model.net_pre(cfg, pre, act)
        rec["host_pre"], rec["net_pre"] = hp, npre
        reexploit = (act.kind == "exploit" and bool(pre[act.target][0]))
        rec["reexploit"] = reexploit
        if act.kind == "noop":
            chance = True
        elif reexploit:
            chance = True
        elif rec["u"] is None:
            chance = True if act.prob >= 1.0 else None
        else:
            chance = rec["u"] < act.prob
        rec["chance"] = chance
        blocked = model.why_blocked(cfg, pre, act)
        rec["blocked"] = blocked
        side = "none" if rec["u"] is None else (
            "lo" if rec["u"] < act.prob else "hi")
        sim.classes.add(f"{act.kind}|{blocked or 'net_ok'}|"
                        f"{'host_ok' if hp else 'host_no'}|{side}|"
                        f"{'S' if success else 'F'}")
        if rec["real"] and chance is False and hp and npre:
            sim.counters.hit("fault.chance_fail")
        if rec["real"] and not np.array_equal(rec["pre_t"], rec["post_t"]):
            sim.progress += 1
        if self.P("C01"):
            self._c01(rec)
        if self.P("C02"):
            self._c02(rec, blocked)
        if self.P("C03"):
            self._c03(rec)
        if self.P("C04"):
            self._c04(rec)
        if self.P("C05"):
            self._c05(rec)
        if self.P("C06"):
            self._c06_done(rec)
        if self.P("C07"):
            self._c07(rec)
        if self.P("C08"):
            self._c08(rec)
        if self.P("C09"):
            self._c09_state(rec["next_state"], post)
            self._c09_aux(rec)

    # ---- C01 ----------------------------------------------------------
    def _c01(self, rec):
        cfg = self.cfg
        act, pre, post = rec["act"], rec["pre"], rec["post"]
        if rec.get("doc_noop"):
            self.probe("documented_noop_vector")
            for h in cfg.order:
                if (pre[h][0], pre[h][3]) != (post[h][0], post[h][3]):
                    self.fail("C01.scan-noop", "a parameter vector naming an "
                              "undefined service/OS or process/OS "
                              "combination (documented to be a no-op) "
                              "changed compromised/access", host=h,
                              before=pre[h], after=post[h],
                              decoded=act._asdict())
        for h in cfg.order:
            if (pre[h][0], pre[h][3]) != (post[h][0], post[h][3]):
                if act.kind not in ("exploit", "privesc"):
                    self.fail("C01.scan-noop", f"a {act.kind} changed "
                              "compromised/access", host=h, before=pre[h],
                              after=post[h], action=act._asdict())
                if act.target != h:
                    self.fail("C01.only-if", "compromised/access changed on a"
                              " host that is not the action's target",
                              host=h, before=pre[h], after=post[h],
                              action=act._asdict())
                if not rec["host_pre"]:
                    self.fail("C01.only-if", "compromised/access changed "
                              "although the host-level preconditions do not"
                              " hold", host=h, before=pre[h], after=post[h],
                              action=act._asdict(),
                              host_cfg=core.jsonable(cfg.hosts[h]))
        if act.kind in ("exploit", "privesc"):
            t = act.target
            if not rec["host_pre"]:
                if act.kind == "exploit":
                    h = cfg.hosts[t]
                    if act.service in h["services"]:
                        self.probe("exploit_refused_os_only")
                    elif model.host_runs_os(cfg, t, act.os):
                        self.probe("exploit_refused_service_only")
                else:
                    if not pre[t][0]:
                        self.probe("privesc_on_uncompromised")
                    elif pre[t][3] < act.req_access:
                        self.probe("privesc_low_access")
                    elif act.process not in cfg.hosts[t]["processes"]:
                        self.probe("privesc_refused_process_only")
            if rec["host_pre"] and rec["net_pre"] and rec["chance"] is True \
                    and cfg.symmetric:
                want = max(pre[t][3], act.access)
                if not rec["success"] or not post[t][0] or post[t][3] != want:
                    self.fail("C01.must", "all preconditions hold and the "
                              "draw succeeds, but the action did not leave "
                              "the host compromised with max(previous, "
                              "granted) access", action=act._asdict(),
                              before=pre[t], after=post[t],
                              success=rec["success"], u=rec["u"],
                              expected_access=want,
                              info_flags={k: rec["info"].get(k)
                                          for k in FLAG_KEYS})
                if act.kind == "privesc" and pre[t][3] == 1 and want == 2:
                    self.probe("user_to_root_by_escalation")
                if act.kind == "exploit" and pre[t][3] == 2 \
                        and act.access == 1:
                    self.probe("user_exploit_on_root_host")
                if act.os is None:
                    self.probe("os_agnostic_action")

    # ---- C02 ----------------------------------------------------------
    def _c02(self, rec, blocked):
        cfg = self.cfg
        act, pre = rec["act"], rec["pre"]
        if act.kind == "noop":
            return
        if blocked:
            self.probe("blocked_" + blocked)
        if not model.visible(pre, act.target):
            if rec["success"] or not np.array_equal(rec["pre_t"],
                                                    rec["post_t"]):
                self.fail("C02.invisible", "action on a host that is not "
                          "both discovered and reachable succeeded or "
                          "changed the state", action=act._asdict(),
                          target_status=pre[act.target],
                          success=rec["success"])
            return
        if not rec["success"]:
            return
        if not cfg.symmetric and act.kind in ("service_scan", "os_scan",
                                              "exploit"):
            return      # orientation of one-way connections is undocumented
        if act.kind in ("service_scan", "os_scan", "exploit"):
            if not model.pivot_ok(cfg, pre, act):
                self.fail("C02.pivot", f"{act.kind} succeeded without a "
                          "compromised pivot with the required access in a "
                          "connected subnet (exploit: whose rule allows the "
                          "service)", action=act._asdict(),
                          compromised=[(h, pre[h][3]) for h in
                                       model.compromised(pre)])
            if not cfg.public(act.target[0]):
                self.probe("remote_success_nonpublic")
        if act.kind == "exploit":
            if not model.traffic_ok(cfg, pre, act):
                self.fail("C02.traffic", "exploit succeeded although no "
                          "attacker-controlled position (internet for a "
                          "public subnet, or a compromised host) may send "
                          "the service to the target",
                          action=act._asdict(),
                          compromised=model.compromised(pre),
                          target_firewall=core.jsonable(
                              cfg.hosts[act.target]["firewall"]),
                          rules_into_target={
                              str(k): sorted(v) for k, v in
                              cfg.firewall.items()
                              if k[1] == act.target[0]})
            self._c02_probes(rec)
        if act.kind in ("subnet_scan", "process_scan", "privesc"):
            if not model.onhost_ok(pre, act):
                self.fail("C02.onhost", f"{act.kind} succeeded on a host the"
                          " attacker has not compromised with the required "
                          "access", action=act._asdict(),
                          target_status=pre[act.target])

    def _c02_probes(self, rec):
        cfg = self.cfg
        act, pre = rec["act"], rec["pre"]
        t = act.target
        inet = (cfg.public(t[0]) and
                act.service in cfg.firewall.get((0, t[0]), ()))
        comp_src = False
        same_subnet_only = False
        for c in model.compromised(pre):
            if c[0] == t[0] or (cfg.connected(c[0], t[0]) and act.service in
                                cfg.firewall.get((c[0], t[0]), ())):
                if act.service not in cfg.hosts[t]["firewall"].get(c, ()):
                    comp_src = True
                    if c[0] == t[0]:
                        same_subnet_only = True
        if inet and not comp_src:
            self.probe("admitted_by_internet_only")
        if comp_src and not inet:
            self.probe("admitted_by_compromised_only")
        if same_subnet_only and not inet:
            self.probe("admitted_by_same_subnet_host")

    # ---- C03 ----------------------------------------------------------
    def _c03_invariants(self, st, where):
        cfg = self.cfg
        exp = model.expected_reachable(cfg, st)
        for h in cfg.order:
            comp, reach, disc, _ = st[h]
            if bool(reach) != exp[h] and cfg.symmetric:
                self.fail("C03.reach-iff", "a host is reachable iff its "
                          "subnet is public or connected to a subnet with a "
                          "compromised host", host=h, reachable=reach,
                          expected=exp[h], where=where,
                          compromised=model.compromised(st))
            if (comp and not disc) or (disc and not reach):
                self.fail("C03.chain", "compromised => discovered => "
                          "reachable", host=h, status=st[h], where=where)
            for v in (comp, reach, disc):
                if v not in (0, 1):
                    self.fail("C03.chain", "status flag is not 0/1", host=h,
                              status=st[h], where=where)

    def _c03(self, rec):
        cfg = self.cfg
        act, pre, post, info = rec["act"], rec["pre"], rec["post"], rec["info"]
        self._c03_invariants(post, rec["tag"])
        changed = [h for h in cfg.order if pre[h][2] != post[h][2]]
        scan_ok = (act.kind == "subnet_scan" and rec["success"])
        if changed and not scan_ok:
            self.fail("C03.disc-provenance", "discovery changed in a step "
                      "that is not a successful subnet scan",
                      action=act._asdict(), hosts=changed[:6],
                      success=rec["success"])
        if scan_ok:
            if not pre[act.target][0]:
                self.fail("C03.disc-provenance", "subnet scan succeeded on "
                          "a host that is not compromised",
                          action=act._asdict())
            if not cfg.symmetric:
                return
            D = model.scan_discovers(cfg, act.target)
            for h in cfg.order:
                want = 1 if (pre[h][2] or h in D) else 0
                if post[h][2] != want:
                    self.fail("C03.disc-provenance", "a subnet scan "
                              "discovers exactly the hosts of the subnets "
                              "connected to the scanning host's subnet",
                              host=h, discovered=post[h][2], expected=want,
                              action=act._asdict())
            d = info.get("discovered") or {}
            nd = info.get("newly_discovered") or {}
            got_d = {tuple(k) for k, v in d.items() if v}
            got_nd = {tuple(k) for k, v in nd.items() if v}
            want_nd = {h for h in D if not pre[h][2]}
            if got_d != D or got_nd != want_nd:
                self.fail("C03.disc-provenance", "info['discovered'] / "
                          "info['newly_discovered'] do not name the scanned "
                          "/ newly discovered hosts",
                          discovered=sorted(got_d), expected=sorted(D),
                          newly=sorted(got_nd), expected_newly=sorted(want_nd))
            if not want_nd:
                self.probe("scan_discovers_nothing_new")
            else:
                self.probe("scan_discovers_new")
        if act.kind == "exploit" and rec["success"]:
            newly = {h[0] for h in cfg.order
                     if post[h][1] and not pre[h][1]}
            if len(newly) >= 2:
                self.probe("exploit_opens_2plus_subnets")
            elif len(newly) == 0:
                self.probe("exploit_opens_none")

    # ---- C04 ----------------------------------------------------------
    def _c04(self, rec):
        cfg = self.cfg
        pre, post = rec["pre"], rec["post"]
        for h in cfg.order:
            a, b = pre[h], post[h]
            if b[0] < a[0] or b[1] < a[1] or b[2] < a[2] or b[3] < a[3]:
                self.fail("C04.monotone", "a host lost compromised / "
                          "reachable / discovered status or access",
                          host=h, before=a, after=b,
                          action=rec["act"]._asdict())
        if rec["act"].kind == "exploit" and rec["success"] \
                and pre[rec["act"].target][3] == 2:
            self.probe("exploit_on_root_host")
        self._c04_config(rec["next_state"], rec["tag"])
        if not np.array_equal(rec["state_obj"].tensor, rec["pre_t"]):
            self.fail("C04.monotone", "the step modified its input state "
                      "in place", action=rec["act"]._asdict())

    def _c04_between_ops(self, cur):
        """Between two step()/reset() calls of an episode nothing may take
        progress away: the state the environment holds now is compared with
        the one it held after the previous step/reset."""
        sim = self.sim
        last = getattr(sim, "_last_episode_status", None)
        if last is None:
            return
        now = sim_read(sim, cur)
        for h in self.cfg.order:
            a, b = last[h], now[h]
            if b[0] < a[0] or b[1] < a[1] or b[2] < a[2] or b[3] < a[3]:
                self.fail("C04.monotone", "between two steps of an episode "
                          "(no reset in between) a host lost compromised / "
                          "reachable / discovered status or access",
                          host=h, before=a, after=b)

    def _c04_config(self, state, where):
        """Address, OS, services, processes, value, discovery value of every
        host, through the HostVector accessors, equal the source."""
        cfg = self.cfg
        for a in cfg.order:
            hv = state.get_host(a)
            src = cfg.hosts[a]
            addr = tuple(int(v) for v in hv.address)
            if addr != a:
                self.fail("C04.config", "host address changed", host=a,
                          observed=addr, where=where)
            os_ = {k: bool(v) for k, v in hv.os.items()}
            if os_ != {o: (o == src["os"]) for o in cfg.os}:
                self.fail("C04.config", "host OS changed", host=a,
                          observed=os_, expected=src["os"], where=where)
            sv = {k for k, v in hv.services.items() if v}
            if sv != src["services"] or set(hv.services) != set(cfg.services):
                self.fail("C04.config", "host services changed", host=a,
                          observed=sorted(sv),
                          expected=sorted(src["services"]), where=where)
            pr = {k for k, v in hv.processes.items() if v}
            if pr != src["processes"] or \
                    set(hv.processes) != set(cfg.processes):
                self.fail("C04.config", "host processes changed", host=a,
                          observed=sorted(pr),
                          expected=sorted(src["processes"]), where=where)
            if not feq(hv.value, src["value"]):
                self.fail("C04.config", "host value changed", host=a,
                          observed=float(hv.value), expected=src["value"],
                          where=where)
            if not feq(hv.discovery_value, src["discovery_value"]):
                self.fail("C04.config", "host discovery value changed",
                          host=a, observed=float(hv.discovery_value),
                          expected=src["discovery_value"], where=where)

    # ---- C05 ----------------------------------------------------------
    def cost_src(self, act):
        cfg = self.cfg
        if act.kind == "noop":
            return 0
        if act.kind == "exploit" and act.name in cfg.exploits:
            return cfg.exploits[act.name]["cost"]
        if act.kind == "privesc" and act.name in cfg.privescs:
            return cfg.privescs[act.name]["cost"]
        if act.kind in cfg.scan_cost:
            return cfg.scan_cost[act.kind]
        return act.cost        # not defined by the source: C11's business

    def expected_value(self, rec):
        cfg = self.cfg
        act, pre, post = rec["act"], rec["pre"], rec["post"]
        if not rec["success"]:
            return 0.0, None, []
        if act.kind in ("exploit", "privesc"):
            t = act.target
            if pre[t][3] < 2 and post[t][3] >= 2:
                return cfg.hosts[t]["value"], t, []
            return 0.0, None, []
        if act.kind == "subnet_scan":
            new = [h for h in cfg.order if not pre[h][2] and post[h][2]]
            return (sum(cfg.hosts[h]["discovery_value"] for h in new),
                    None, new)
        return 0.0, None, []

    def _c05(self, rec):
        act, info = rec["act"], rec["info"]
        value = info.get("value")
        cost = self.cost_src(act)
        if not feq(rec["reward"], float(value) - float(cost)):
            self.fail("C05.equation", "reward != value gained - cost the "
                      "scenario defines for the action",
                      action=act._asdict(), reward=float(rec["reward"]),
                      value=float(value), cost=cost)
        if act.kind == "noop" and not feq(rec["reward"], 0.0):
            self.fail("C05.equation", "a no-op has non-zero reward",
                      reward=float(rec["reward"]))
        if not rec["success"] and not feq(value, 0.0):
            self.fail("C05.equation", "a failed action gained value",
                      action=act._asdict(), value=float(value))
        want, root_host, new = self.expected_value(rec)
        if not feq(value, want):
            self.fail("C05.value", "value gained is not [host value iff "
                      "root is first obtained in this step] + [discovery "
                      "values of newly discovered hosts]",
                      action=act._asdict(), value=float(value),
                      expected=want, before=rec["pre"][act.target],
                      after=rec["post"][act.target], newly_discovered=new)
        if root_host is not None:
            v = self.cfg.hosts[root_host]["value"]
            if v < 0:
                self.probe("negative_value_paid")
            if act.kind == "privesc":
                self.probe("root_via_escalation_paid")
        if cost == 0:
            self.probe("zero_cost_action")
        if isinstance(cost, float) and cost != int(cost):
            self.probe("fractional_cost")

    def _c05_ledger(self, rec):
        led = self.sim.ledger
        want, root_host, new = self.expected_value(rec)
        value = float(rec["info"].get("value"))
        if root_host is not None:
            if root_host in led.root_paid and not feq(value, 0.0):
                self.fail("C05.once", "a host's value was paid a second time"
                          " in one episode", host=root_host,
                          action=rec["act"]._asdict(), value=value)
            led.root_paid.add(root_host)
        for h in new:
            if h in led.disc_paid and \
                    not feq(self.cfg.hosts[h]["discovery_value"], 0.0):
                self.fail("C05.once", "a discovery value was paid a second "
                          "time in one episode", host=h,
                          action=rec["act"]._asdict())
            led.disc_paid.add(h)
        if rec["act"].kind == "subnet_scan" and rec["success"] and \
                self.cfg.symmetric:
            D = model.scan_discovers(self.cfg, rec["act"].target)
            first = [h for h in self.cfg.order
                     if h in D and h not in led.hist_disc]
            want_hist = sum(self.cfg.hosts[h]["discovery_value"]
                            for h in first)
            if not feq(value, want_hist):
                self.fail("C05.once", "a discovery value must be paid by "
                          "(and only by) the subnet scan that first "
                          "discovers the host in this episode",
                          action=rec["act"]._asdict(), value=value,
                          expected=want_hist, first_discovered=first)
            led.hist_disc |= D
        led.sum_reward += float(rec["reward"])
        led.sum_paid += float(want)
        led.sum_cost += float(self.cost_src(rec["act"]))
        if not feq(led.sum_reward, led.sum_paid - led.sum_cost, tol=1e-4):
            self.fail("C05.once", "episode conservation: sum of rewards != "
                      "sum of values paid once - sum of costs",
                      rewards=led.sum_reward, paid=led.sum_paid,
                      costs=led.sum_cost)

    # ---- C06 ----------------------------------------------------------
    def _c06_done(self, rec):
        cfg, env = self.cfg, self.sim.env
        want = model.goal(cfg, rec["post"])
        if bool(rec["done"]) != want:
            self.fail("C06.done", "terminal flag != (root on every "
                      "sensitive host in the resulting state)",
                      done=bool(rec["done"]), expected=want,
                      sensitive={str(h): rec["post"][h][3]
                                 for h in cfg.sensitive},
                      action=rec["act"]._asdict())
        got = env.goal_reached(rec["next_state"])
        if bool(got) != want:
            self.fail("C06.done", "goal_reached(state) disagrees with the "
                      "state", got=bool(got), expected=want)
        n_root = sum(1 for h in cfg.sensitive if rec["post"][h][3] >= 2)
        if want:
            self.probe(f"goal_with_{min(len(cfg.sensitive), 3)}_sensitive")
        elif n_root == len(cfg.sensitive) - 1 and len(cfg.sensitive) > 1:
            self.probe("all_but_one_sensitive_root")
        if any(rec["post"][h][3] == 1 for h in cfg.sensitive):
            self.probe("sensitive_with_user_only")

    def _c06_limit(self, rec):
        cfg, env, sim = self.cfg, self.sim.env, self.sim
        n = sim.n_since_reset
        lim = cfg.step_limit
        want = lim is not None and n >= lim
        if bool(rec["trunc"]) != want:
            self.fail("C06.limit", "step-limit flag != (number of step() "
                      "calls since the last reset >= step limit)",
                      truncated=bool(rec["trunc"]), steps=n, limit=lim)
        if env.steps != n:
            self.fail("C06.limit", "env.steps != number of step() calls "
                      "since the last reset (generative steps must not "
                      "count)", env_steps=env.steps, steps=n)
        if lim is not None and n == lim:
            self.probe("limit_hit_exactly")
        if lim is not None and n > lim:
            self.probe("limit_exceeded")

    # ---- C07 ----------------------------------------------------------
    def _c07(self, rec):
        act, info = rec["act"], rec["info"]
        flags = [k for k in FLAG_KEYS if info.get(k)]
        if rec["success"] and flags:
            self.fail("C07.flags", "success reported together with an error"
                      " flag", flags=flags, action=act._asdict())
        if len(flags) > 1:
            self.fail("C07.flags", "more than one error flag", flags=flags,
                      action=act._asdict())
        if act.kind == "noop" or not self.cfg.symmetric:
            return
        eligible = rec["host_pre"] and rec["net_pre"]
        if eligible and not rec["reexploit"]:
            if rec["u"] is None:
                if 0.0 < act.prob < 1.0:
                    self._c07_frequency(rec)
                elif act.prob >= 1.0 and not rec["success"] \
                        and act.kind in ("exploit", "privesc"):
                    self.fail("C07.decided", "probability-1 action failed "
                              "although all preconditions hold",
                              action=act._asdict())
                elif act.prob <= 0.0 and rec["success"]:
                    self.fail("C07.decided", "probability-0 action "
                              "succeeded", action=act._asdict())
                return
            want = rec["u"] < act.prob
            if act.kind in ("exploit", "privesc"):
                if rec["success"] != want:
                    self.fail("C07.decided", "outcome is not decided by "
                              "comparing the first uniform draw with the "
                              "action's probability", u=rec["u"],
                              prob=act.prob, success=rec["success"],
                              draws_served=rec["log"],
                              action=act._asdict())
            elif not want and rec["success"]:
                self.fail("C07.decided", "chance draw above the action's "
                          "probability but the scan succeeded", u=rec["u"],
                          prob=act.prob, action=act._asdict())
            if act.prob in (0.0, 1.0):
                self.probe(f"prob_{int(act.prob)}")
            if abs(rec["u"] - act.prob) < 1e-8:
                self.probe("draw_within_1e-8_of_prob")
            if act.kind == "privesc" and act.prob < 1:
                self.probe("stochastic_escalation")
            if not want:
                # chance failure: nothing changes, nothing gained, undefined
                if not np.array_equal(rec["pre_t"], rec["post_t"]) or \
                        not feq(info.get("value"), 0.0) or \
                        not feq(rec["reward"], -float(self.cost_src(act))) \
                        or flags != ["undefined_error"]:
                    self.fail("C07.fail-clean", "a chance failure must "
                              "change nothing, gain nothing and be reported"
                              " as an undefined error only",
                              flags=flags, value=float(info.get("value")),
                              reward=float(rec["reward"]),
                              state_changed=not np.array_equal(
                                  rec["pre_t"], rec["post_t"]),
                              action=act._asdict())
        if eligible and rec["reexploit"]:
            self.probe("reexploit")
            if not rec["success"]:
                self.fail("C07.reexploit", "re-exploiting an already "
                          "compromised host failed", u=rec["u"],
                          prob=act.prob, flags=flags, action=act._asdict())

    def _c07_twins(self, lo, hi, rec):
        """Twin generative steps with the draw below / above prob."""
        act = rec["act"]
        if not self.cfg.symmetric:
            return
        eligible = rec["host_pre"] and rec["net_pre"]
        if not eligible:
            same = (lo["success"] == hi["success"]
                    and np.array_equal(lo["post_t"], hi["post_t"])
                    and feq(lo["info"].get("value"), hi["info"].get("value"))
                    and feq(lo["reward"], hi["reward"]))
            if same and not rec["net_pre"] and \
                    rec.get("blocked") != "low_access":
                # (an on-host access level below req_access can only be the
                # sole failing condition for self-built actions; which error
                # flag such a failure carries is not pinned by the statement)
                same = all(bool(lo["info"].get(k)) == bool(hi["info"].get(k))
                           for k in FLAG_KEYS)
            if not same:
                self.fail("C07.unaffected", "an action whose preconditions "
                          "do not hold is affected by the chance draw",
                          action=act._asdict(),
                          lo={"success": lo["success"], "u": lo["u"],
                              "flags": [k for k in FLAG_KEYS
                                        if lo["info"].get(k)]},
                          hi={"success": hi["success"], "u": hi["u"],
                              "flags": [k for k in FLAG_KEYS
                                        if hi["info"].get(k)]},
                          net_pre=rec["net_pre"], host_pre=rec["host_pre"])
            self.probe("twins_on_ineligible")
        else:
            self.probe("twins_on_eligible")

    def c07_episode_frequency(self, op):
        """Unscripted sanity run: N fresh episodes, each starting with the
        same stochastic action whose preconditions hold at reset, with the
        real global generator (seeded once from the run seed).  Successive
        episodes must see independent draws: the success frequency must be
        compatible with the action's probability (6 sigma)."""
        sim, env, cfg = self.sim, self.sim.env, self.cfg
        st0 = model.initial_status(cfg)
        cands = []
        for k in sim.table.keys:
            if k[0] != "exploit":
                continue
            a = sim._act_of_key(k)
            if a is None:
                continue
            if 0.05 < a.prob < 0.95 and model.host_pre(cfg, st0, a) and \
                    model.net_pre(cfg, st0, a):
                cands.append(k)
        if not cands:
            return
        k = cands[int(op.get("pick", 0)) % len(cands)]
        a = sim._act_of_key(k)
        x = sim.table.by_key[k]
        N = int(op.get("n", 500))
        st_np = np.random.get_state()
        np.random.seed(core.h64(f"{sim.seed}|epfreq") % (2 ** 32))
        sim.rnd.passthrough = True
        succ = 0
        try:
            if op.get("seed_first"):
                env.reset(seed=int(op["seed_first"]))
            for _ in range(N):
                env.reset()
                out = env.step(x)
                succ += bool(out[4].get("success"))
        except Exception as e:
            from .envsim import SutError
            raise SutError("step", e)
        finally:
            sim.rnd.passthrough = False
            np.random.set_state(st_np)
        self.probe("episode_frequency")
        p = a.prob
        sigma = (p * (1 - p) / N) ** 0.5
        if abs(succ / N - p) > 6 * sigma + 1e-9:
            self.fail("C07.frequency", "over fresh episodes (real generator) "
                      "the success frequency of a stochastic action is "
                      f"incompatible with its probability (6 sigma, N={N})",
                      observed=succ / N, prob=p, action=a._asdict(),
                      reset_seed_first=op.get("seed_first"))

    def _c07_frequency(self, rec):
        """The step consumed no scripted uniform although the action is
        stochastic: the seam was bypassed.  Frequency test with the real
        generators seeded from the run seed (deterministic)."""
        sim, env = self.sim, self.sim.env
        act = rec["act"]
        if getattr(sim, "_freq_done", 0) >= 3:
            return
        sim._freq_done = getattr(sim, "_freq_done", 0) + 1
        self.probe("frequency_fallback")
        N = 4000
        st_np = np.random.get_state()
        st_py = _pyrandom.getstate()
        seed = core.h64(f"{sim.seed}|freq|{sim._freq_done}") % (2 ** 32)
        np.random.seed(seed)
        _pyrandom.seed(seed)
        sim.rnd.reseed_private(seed)
        try:
            x = sim.table.by_key.get((act.kind, act.target, act.name))
            if x is None:
                return
            succ = 0
            for _ in range(N):
                sim.rnd.push([])
                out = env.generative_step(rec["state_obj"], x)
                succ += bool(out[4].get("success"))
        finally:
            np.random.set_state(st_np)
            _pyrandom.setstate(st_py)
        p = act.prob
        sigma = (p * (1 - p) / N) ** 0.5
        if abs(succ / N - p) > 6 * sigma + 1e-9:
            self.fail("C07.frequency", "observed success frequency is "
                      "incompatible with the action's probability (6 sigma,"
                      f" N={N})", observed=succ / N, prob=p,
                      action=act._asdict())

    # ---- C08 ----------------------------------------------------------
    def _c08(self, rec):
        cfg, L, sim = self.cfg, self.L, self.sim
        obs = rec["obs2d"]
        n = len(cfg.order)
        if obs.shape != (n + 1, L.size):
            self.fail("C08.aux", "observation has not one row per host plus"
                      " one auxiliary row", shape=list(obs.shape),
                      expected=[n + 1, L.size])
        info, act = rec["info"], rec["act"]
        aux = obs[n]
        want_aux = [float(bool(info.get("success"))),
                    float(bool(info.get("connection_error"))),
                    float(bool(info.get("permission_error"))),
                    float(bool(info.get("undefined_error")))]
        if [float(v) for v in aux[:4]] != want_aux or np.any(aux[4:] != 0):
            self.fail("C08.aux", "auxiliary row != (success, connection, "
                      "permission, undefined) flags followed by zeros",
                      aux=[float(v) for v in aux[:6]], expected=want_aux)
        host_rows = obs[:n]
        post_t = rec["post_t"]
        if sim.fully_obs:
            if not np.array_equal(host_rows, post_t):
                self.fail("C08.truthful", "fully observable: host rows != "
                          "true resulting state", action=act._asdict())
            return
        nz = host_rows != 0
        if np.any(nz & (host_rows != post_t)):
            r, c = np.argwhere(nz & (host_rows != post_t))[0]
            self.fail("C08.truthful", "a non-zero observation entry differs"
                      " from the true resulting state",
                      host=cfg.order[int(r)], column=int(c),
                      observed=float(host_rows[r, c]),
                      true=float(post_t[r, c]), action=act._asdict())
        if act.kind == "noop" or not rec["success"]:
            if np.any(nz):
                self.fail("C08.silent", "a failed action / no-op revealed "
                          "host information", action=act._asdict(),
                          rows=[cfg.order[int(i)] for i in
                                np.unique(np.argwhere(nz)[:, 0])][:5])
            self.probe("obs_silent")
            return
        t_idx = cfg.order.index(act.target)
        allowed_rows = {t_idx}
        scanned = set()
        if act.kind == "subnet_scan":
            if cfg.symmetric:
                scanned = {cfg.order.index(h)
                           for h in model.scan_discovers(cfg, act.target)}
            else:
                scanned = {cfg.order.index(tuple(h)) for h, v in
                           (info.get("discovered") or {}).items() if v}
            allowed_rows |= scanned
        rows_nz = {int(i) for i in np.unique(np.argwhere(nz)[:, 0])}
        if not rows_nz <= allowed_rows:
            self.fail("C08.rows", "observation has entries outside the "
                      "target's row (and the scanned rows)",
                      rows=[cfg.order[i] for i in
                            sorted(rows_nz - allowed_rows)][:5],
                      action=act._asdict())

        def expect_row(i, groups):
            cols = []
            for g in ("address", "reachable", "discovered") + tuple(groups):
                cols.extend(L.groups[g])
            want = np.zeros(L.size, dtype=np.float32)
            want[cols] = post_t[i][cols]
            if not np.array_equal(host_rows[i], want):
                bad = int(np.argwhere(host_rows[i] != want)[0][0])
                gname = [g for g, cs in L.groups.items() if bad in cs]
                self.fail("C08.groups", "a successful action must reveal "
                          "exactly the feature groups its type entitles, in"
                          " full", host=cfg.order[i], column=bad,
                          group=gname, observed=float(host_rows[i][bad]),
                          expected=float(want[bad]), action=act._asdict(),
                          entitled=list(groups))
        if act.kind == "subnet_scan":
            for i in sorted(scanned):
                h = cfg.order[i]
                newly = (not rec["pre"][h][2]) and bool(rec["post"][h][2])
                groups = ("discovery_value",) if newly else ()
                if i == t_idx:
                    groups = groups + ("compromised",)
                expect_row(i, groups)
        else:
            expect_row(t_idx, ENTITLED[act.kind])
        self.probe("obs_" + act.kind)

    def _c08_initial(self, obs_arr, state):
        cfg, L, sim = self.cfg, self.L, self.sim
        obs = self._as2d(obs_arr)
        n = len(cfg.order)
        if obs.shape != (n + 1, L.size):
            self.fail("C08.initial", "initial observation has the wrong "
                      "shape", shape=list(np.asarray(obs_arr).shape))
        if np.any(obs[n] != 0):
            self.fail("C08.initial", "auxiliary row of the initial "
                      "observation is not zero")
        st = state.tensor
        if sim.fully_obs:
            if not np.array_equal(obs[:n], st):
                self.fail("C08.initial", "fully observable initial "
                          "observation != full state")
            return
        for i, h in enumerate(cfg.order):
            want = np.zeros(L.size, dtype=np.float32)
            if cfg.public(h[0]):
                cols = L.groups["address"] + [L.reach, L.disc]
                want[cols] = st[i][cols]
            if not np.array_equal(obs[i], want):
                self.fail("C08.initial", "partially observable initial "
                          "observation must reveal only address, reachable "
                          "and discovered of the initially reachable hosts",
                          host=h, observed=[float(v) for v in obs[i]],
                          expected=[float(v) for v in want])

    # ---- C09 ----------------------------------------------------------
    def _c09_state(self, state, status):
        L = self.L
        t = state.tensor
        want = L.encode(status)
        if t.shape != want.shape or not np.allclose(t, want, rtol=1e-6,
                                                    atol=0):
            if t.shape != want.shape:
                self.fail("C09.encode", "state tensor shape differs from "
                          "the documented layout", shape=list(t.shape),
                          expected=list(want.shape))
            r, c = np.argwhere(~np.isclose(t, want, rtol=1e-6, atol=0))[0]
            gname = [g for g, cs in L.groups.items() if int(c) in cs]
            self.fail("C09.encode", "state tensor differs from the "
                      "documented layout encoding of the host's definition "
                      "and status", host=self.cfg.order[int(r)],
                      column=int(c), group=gname, observed=float(t[r, c]),
                      expected=float(want[r, c]))
        if t.dtype != np.float32:
            self.fail("C09.encode", "state tensor is not float32",
                      dtype=str(t.dtype))

    def _c09_aux(self, rec):
        obs, info = rec["obs2d"], rec["info"]
        n = len(self.cfg.order)
        if getattr(obs, "shape", None) != (n + 1, self.L.size):
            return          # shape is reported by C09.obs-shape
        want = [float(bool(info.get("success"))),
                float(bool(info.get("connection_error"))),
                float(bool(info.get("permission_error"))),
                float(bool(info.get("undefined_error")))]
        aux = obs[n]
        if [float(v) for v in aux[:4]] != want or np.any(aux[4:] != 0):
            self.fail("C09.aux", "the final row's first four entries must be "
                      "success, connection error, permission error and "
                      "undefined error (zeros after them)",
                      aux=[float(v) for v in aux[:6]], expected=want,
                      action=rec["act"]._asdict())

    def _c09_decode_initial(self, state):
        cfg, L = self.cfg, self.L
        for i, a in enumerate(cfg.order):
            d = L.decode_row(state.tensor[i])
            src = cfg.hosts[a]
            ok = (d["address"] == a
                  and {o for o, v in d["os"].items() if v == 1} == {src["os"]}
                  and {s for s, v in d["services"].items() if v == 1}
                  == src["services"]
                  and {p for p, v in d["processes"].items() if v == 1}
                  == src["processes"]
                  and feq(d["value"], src["value"])
                  and feq(d["discovery_value"], src["discovery_value"])
                  and all(v in (0, 1) for g in ("os", "services",
                                                "processes")
                          for v in d[g].values()))
            if not ok:
                self.fail("C09.decode-initial", "decoding the initial state "
                          "with the documented layout does not reproduce the"
                          " host definition", host=a,
                          decoded=core.jsonable(d),
                          source=core.jsonable(src))

    def _c09_obs_shape(self, obs_arr):
        cfg, L, sim, env = self.cfg, self.L, self.sim, self.sim.env
        n = len(cfg.order)
        a = np.asarray(obs_arr)
        want = ((n + 1) * L.size,) if sim.flat_obs else (n + 1, L.size)
        if a.shape != want:
            self.fail("C09.obs-shape", "observation shape != state rows + "
                      "one auxiliary row (1D: flattened)",
                      shape=list(a.shape), expected=list(want))
        two_d = np.asarray(env.last_obs.numpy())
        if two_d.shape != (n + 1, L.size):
            self.fail("C09.obs-shape", "2D observation has the wrong shape",
                      shape=list(two_d.shape))
        if sim.flat_obs:
            if not np.array_equal(a, two_d.reshape(-1)):
                self.fail("C09.obs-shape", "1D observation is not the "
                          "row-major flattening of the 2D observation")
        elif not np.array_equal(a, two_d):
            self.fail("C09.obs-shape", "returned 2D observation differs "
                      "from env.last_obs")

    def _readable_expected(self, row):
        d = self.L.decode_row(row)
        out = {"Address": d["address"], "Compromised": bool(d["compromised"]),
               "Reachable": bool(d["reachable"]),
               "Discovered": bool(d["discovered"]), "Value": d["value"],
               "Discovery Value": d["discovery_value"],
               "Access": d["access"]}
        for g in ("os", "services", "processes"):
            for k, v in d[g].items():
                out[k] = bool(v)
        return out

    def _readable_equal(self, got, want):
        if set(got) != set(want):
            return False
        for k, v in want.items():
            g = got[k]
            if k == "Address":
                if tuple(int(x) for x in g) != tuple(v):
                    return False
            elif isinstance(v, bool):
                if bool(g) != v:
                    return False
            elif not feq(g, v):
                return False
        return True

    def _c09_roundtrip(self, state):
        from nasim.envs.state import State
        from nasim.envs.observation import Observation
        cfg, env, sim = self.cfg, self.sim.env, self.sim
        names = cfg.os + cfg.services + cfg.processes
        unique_names = len(set(names)) == len(names)
        flat = state.numpy_flat()
        s2 = State.from_numpy(np.array(flat, copy=True), state.shape(),
                              state.host_num_map)
        if not np.array_equal(s2.tensor, state.tensor):
            self.fail("C09.roundtrip", "State.from_numpy(flat array) does "
                      "not give back the same content")
        if unique_names:
            rd = state.get_readable()
            if len(rd) != len(cfg.order):
                self.fail("C09.roundtrip", "State.get_readable() has not "
                          "one entry per host", entries=len(rd))
            for i, a in enumerate(cfg.order):
                want = self._readable_expected(state.tensor[i])
                if not self._readable_equal(rd[i], want):
                    self.fail("C09.roundtrip", "State.get_readable() "
                              "differs from the documented decoding",
                              host=a, got=core.jsonable(rd[i]),
                              expected=core.jsonable(want))
        o = env.last_obs
        arr = o.numpy_flat() if sim.flat_obs else o.numpy()
        o2 = Observation.from_numpy(np.array(arr, copy=True), state.shape())
        if not np.array_equal(o2.tensor, o.tensor):
            self.fail("C09.roundtrip", "Observation.from_numpy does not "
                      "give back the same content")
        # the same content in column-major memory (e.g. from a transposed
        # replay buffer) is the same observation
        o3 = Observation.from_numpy(np.asfortranarray(o.numpy()),
                                    state.shape())
        if not np.array_equal(o3.numpy(), o.tensor) or \
                not np.array_equal(o3.numpy_flat(), o.tensor.reshape(-1)):
            self.fail("C09.roundtrip", "an observation fed back in "
                      "column-major memory does not flatten row-major")
        s3 = State.from_numpy(np.asfortranarray(state.tensor),
                              state.shape(), state.host_num_map)
        if not np.array_equal(s3.numpy_flat(), state.tensor.reshape(-1)):
            self.fail("C09.roundtrip", "a state fed back in column-major "
                      "memory does not flatten row-major")
        if unique_names:
            hosts_rd, aux_rd = o2.get_readable()
            n = len(cfg.order)
            if len(hosts_rd) != n:
                self.fail("C09.roundtrip", "Observation.get_readable() has "
                          "not one entry per host", entries=len(hosts_rd))
            for i in range(n):
                want = self._readable_expected(o.tensor[i])
                if not self._readable_equal(hosts_rd[i], want):
                    self.fail("C09.roundtrip", "Observation.get_readable() "
                              "differs from the documented decoding",
                              row=i, got=core.jsonable(hosts_rd[i]),
                              expected=core.jsonable(want))
            aux = o.tensor[n]
            want_aux = {"Success": bool(aux[0]),
                        "Connection Error": bool(aux[1]),
                        "Permission Error": bool(aux[2]),
                        "Undefined Error": bool(aux[3])}
            if {k: bool(v) for k, v in aux_rd.items()} != want_aux:
                self.fail("C09.roundtrip", "auxiliary readable differs from"
                          " the first four entries of the auxiliary row",
                          got=core.jsonable(aux_rd), expected=want_aux)
        self.probe("roundtrip")

    # ---- C10 ----------------------------------------------------------
    def _c10_obs(self, obs_arr):
        env, cfg, sim = self.sim.env, self.cfg, self.sim
        if not isinstance(obs_arr, np.ndarray) or \
                obs_arr.dtype != np.float32:
            self.fail("C10.obs", "observation is not a float32 ndarray",
                      type=str(type(obs_arr)),
                      dtype=str(getattr(obs_arr, "dtype", None)))
        space = env.observation_space
        if tuple(obs_arr.shape) != tuple(space.shape):
            self.fail("C10.obs", "observation shape != observation_space."
                      "shape", shape=list(obs_arr.shape),
                      space=list(space.shape))
        dims = tuple(self.sim.scenario.get_observation_dims())
        want = (dims[0] * dims[1],) if sim.flat_obs else dims
        if tuple(obs_arr.shape) != want:
            self.fail("C10.obs", "observation shape != the dimensions the "
                      "scenario advertises", shape=list(obs_arr.shape),
                      advertised=list(dims))
        if not space.contains(obs_arr):
            lo, hi = float(np.min(space.low)), float(np.max(space.high))
            self.fail("C10.obs", "observation_space.contains(obs) is false",
                      obs_min=float(obs_arr.min()),
                      obs_max=float(obs_arr.max()), low=lo, high=hi,
                      space_dtype=str(space.dtype))

    def _c10_reset_tuple(self, out):
        if not (isinstance(out, tuple) and len(out) == 2
                and isinstance(out[1], dict)):
            self.fail("C10.tuples", "reset() must return (observation, "
                      "info dict)", got=str(type(out)))

    def _c10_step_tuple(self, out):
        ok = isinstance(out, tuple) and len(out) == 5
        if ok:
            _, reward, term, trunc, info = out
            ok = (isinstance(reward, (int, float, np.floating, np.integer))
                  and not isinstance(reward, bool)
                  and isinstance(term, (bool, np.bool_))
                  and isinstance(trunc, (bool, np.bool_))
                  and isinstance(info, dict))
        if not ok:
            self.fail("C10.tuples", "step() must return (observation, "
                      "reward, terminated, truncated, info)",
                      got=[str(type(v)) for v in out]
                      if isinstance(out, tuple) else str(type(out)))

    # ---- C11 ----------------------------------------------------------
    def _c11_boot(self):
        from . import actionspace
        actionspace.check_spaces(self)

    def _c11_mask(self):
        env, cfg, sim = self.sim.env, self.cfg, self.sim
        if not sim.table.flat:
            return
        try:
            mask = env.get_action_mask()
        except Exception as e:
            self.fail("C11.mask", "get_action_mask() raised",
                      error=f"{type(e).__name__}: {e}")
        st = sim_read(sim, env.current_state)
        acts = env.action_space.actions
        if len(mask) != len(acts):
            self.fail("C11.mask", "mask length != number of flat actions",
                      length=len(mask), actions=len(acts))
        for i, a in enumerate(acts):
            t = (int(a.target[0]), int(a.target[1]))
            want = 1 if st[t][2] else 0
            if int(mask[i]) != want:
                self.fail("C11.mask", "mask entry != (target host is "
                          "currently discovered)", index=i, target=t,
                          mask=int(mask[i]), discovered=st[t][2])
        self.probe("mask_checked")
        if any(st[h][2] for h in cfg.order if not cfg.public(h[0])):
            self.probe("mask_after_discovery")

    # ---- C13 ----------------------------------------------------------
    def _c13_pure(self, rec, snap, poison):
        env = self.sim.env
        cur_b, obs_b, steps, cur_id, obs_id = snap
        state = rec["state_obj"]
        nxt = rec["next_state"]
        if not np.array_equal(state.tensor, rec["pre_t"]):
            self.fail("C13.pure", "generative_step modified its argument "
                      "state", action=rec["act"]._asdict())
        if env.current_state.tensor.tobytes() != cur_b or \
                id(env.current_state) != cur_id:
            self.fail("C13.pure", "generative_step modified the "
                      "environment's current state",
                      action=rec["act"]._asdict())
        if env.last_obs.tensor.tobytes() != obs_b or \
                id(env.last_obs) != obs_id:
            self.fail("C13.pure", "generative_step modified the "
                      "environment's last observation",
                      action=rec["act"]._asdict())
        if env.steps != steps:
            self.fail("C13.pure", "generative_step changed the step "
                      "counter", before=steps, after=env.steps)
        if nxt is state or np.shares_memory(nxt.tensor, state.tensor) or \
                np.shares_memory(nxt.tensor, env.current_state.tensor):
            self.fail("C13.pure", "the returned state shares storage with "
                      "its input / the current state",
                      action=rec["act"]._asdict())
        if np.shares_memory(rec["obs2d"], state.tensor) or \
                np.shares_memory(rec["obs2d"], nxt.tensor):
            self.fail("C13.pure", "the returned observation shares storage "
                      "with a state", action=rec["act"]._asdict())
        if poison:
            keep = nxt.tensor.copy()
            nxt.tensor[:] = 7.0
            rec["obs2d"][:] = 7.0
            bad = (not np.array_equal(state.tensor, rec["pre_t"])
                   or env.current_state.tensor.tobytes() != cur_b
                   or env.last_obs.tensor.tobytes() != obs_b)
            nxt.tensor[:] = keep
            rec["post_t"] = nxt.tensor
            if bad:
                self.fail("C13.pure", "writing into the returned state / "
                          "observation changed the argument or the "
                          "environment", action=rec["act"]._asdict())

    def _c13_agree(self, g, r):
        env = self.sim.env
        diffs = []
        if not np.array_equal(g["post_t"], r["post_t"]):
            diffs.append("next state")
        if not np.array_equal(g["obs2d"], r["obs2d"]):
            diffs.append("observation")
        if not feq(g["reward"], r["reward"]):
            diffs.append("reward")
        if bool(g["done"]) != bool(r["done"]):
            diffs.append("terminal flag")
        if g.get("info_snap", _canon_info(g["info"])) != \
                _canon_info(r["info"]):
            diffs.append("info")
        if "info_snap" in g and _canon_info(g["info"]) != g["info_snap"]:
            self.fail("C13.pure", "an info dict returned by an earlier "
                      "generative step was rewritten afterwards",
                      action=r["act"]._asdict())
        if diffs:
            self.fail("C13.agree", "step() and generative_step() disagree "
                      "under the same draw", differs=diffs,
                      action=r["act"]._asdict(), u=r["u"])
        if not np.array_equal(env.current_state.tensor, g["post_t"]):
            self.fail("C13.agree", "step() did not install the generative "
                      "step's next state as the current state")
        if not np.array_equal(env.last_obs.tensor, r["obs2d"]):
            self.fail("C13.agree", "env.last_obs differs from the returned "
                      "observation")

    # ------------------------------------------------------------------
    # queries
    # ------------------------------------------------------------------
    def query(self, op):
        sim, env, cfg = self.sim, self.sim.env, self.cfg
        what = op["what"]
        src = op.get("src", "cur")
        state = env.current_state if src == "cur" else sim.states.get(src)
        if state is None:
            return
        if what == "readonly":
            # read-only public API calls as a disturbance: they must not
            # change what the following steps do (any damage shows up in the
            # ordinary clauses afterwards)
            sim.counters.hit("fault.readonly_api_calls")
            for fn in (env.get_minimum_hops, env.get_score_upper_bound,
                       env.goal_reached,
                       lambda: env.goal_reached(state),
                       env.current_state.get_readable,
                       env.last_obs.get_readable,
                       env.scenario.get_description,
                       lambda: str(env),
                       lambda: env.get_action_mask() if sim.table.flat
                       else None,
                       lambda: env.network.get_total_discovery_value(),
                       lambda: env.network.get_total_sensitive_host_value(),
                       lambda: env.scenario.host_value_bounds,
                       lambda: env.action_space.sample(),
                       env.generate_initial_state,
                       lambda: _random_initial(env),
                       lambda: env.generate_initial_state(),
                       lambda: __import__("pickle").loads(
                           __import__("pickle").dumps(env.last_obs)),
                       lambda: __import__("copy").deepcopy(
                           env.current_state),
                       lambda: __import__("copy").deepcopy(env.scenario)):
                try:
                    fn()
                except Exception:
                    sim.counters.hit("readonly_api_raised")
            return
        if what == "goal" and self.P("C06"):
            st = sim_read(sim, state)
            want = model.goal(cfg, st)
            if bool(env.goal_reached(state)) != want:
                self.fail("C06.done", "goal_reached(state) disagrees with "
                          "the state", expected=want)
            if src == "cur" and bool(env.goal_reached()) != want:
                self.fail("C06.done", "goal_reached() disagrees with the "
                          "current state", expected=want)
            self.probe("goal_query")
        elif what == "mask" and self.P("C11"):
            self._c11_mask()
            from . import actionspace
            actionspace.check_rebuild(self)
            actionspace.check_decode_sample(self)
        elif what in ("readable", "roundtrip") and self.P("C09"):
            self._c09_roundtrip(env.current_state)
        elif what == "contains" and self.P("C10") and \
                not getattr(sim, "scribbled", False):
            o = env.last_obs
            arr = o.numpy_flat() if sim.flat_obs else o.numpy()
            self._c10_obs(arr)


def _random_initial(env):
    """Public helper that draws from numpy's global generator: called with
    the generator's state put back afterwards."""
    keep = np.random.get_state()
    try:
        return env.generate_random_initial_state()
    finally:
        np.random.set_state(keep)


# --------------------------------------------------------------------------
def sim_read(sim, state):
    from .envsim import read_status
    return read_status(state, sim.cfg)


def sim_twin_rng(sim):
    if not hasattr(sim, "_twin_rng"):
        sim._twin_rng = core.stream(sim.seed, "twins")
    return sim._twin_rng


def _same_array(a, b):
    a, b = np.asarray(a), np.asarray(b)
    return a.shape == b.shape and np.array_equal(a, b)


def _canon_info(info):
    out = {}
    for k, v in info.items():
        if isinstance(v, dict):
            out[k] = sorted((str(a), _f(b)) for a, b in v.items())
        else:
            out[k] = _f(v)
    return out


def _f(v):
    if isinstance(v, (bool, np.bool_)):
        return bool(v)
    try:
        return round(float(v), 6)
    except (TypeError, ValueError):
        return repr(v)
