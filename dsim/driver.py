"""Generic check driver: seeded batch -> first violation -> isolate ->
minimise -> replay file -> fresh-interpreter confirmation -> evidence.

An *engine* is a module-like object with
  NAME
  budget(prop, tier) -> dict(runs=, chunk=, wall=)
  run_one(prop, tier, root, idx, extra) -> result dict
  extra(prop, tier) -> extra dict handed to run_one
  replay_run(prop, run_trace, tier) -> result dict   (executes one recorded run)
  shrink_candidates(run_trace) -> iterator of smaller run traces (optional)
  describe(prop) -> dict(level=, rule=, assumptions=[...], real=[...], stub=[...])
"""
import json
import multiprocessing
import os
import subprocess
import sys
import time
import traceback

from . import core, findings, VERIF, REPO
from .core import EXIT_OK, EXIT_VIOLATION, EXIT_HARNESS


# --------------------------------------------------------------------------
# isolated execution (fresh forked process per trial)
# --------------------------------------------------------------------------
def _iso_child(conn, fn, args):
    try:
        conn.send(("ok", fn(*args)))
    except BaseException:
        conn.send(("err", traceback.format_exc()))
    finally:
        conn.close()
        try:
            from . import configs
            configs.cleanup_tmp()
        except Exception:
            pass
        os._exit(0)


def isolated(fn, *args, timeout=300):
    ctx = multiprocessing.get_context("fork")
    pr, pw = ctx.Pipe(duplex=False)
    sys.stdout.flush()
    p = ctx.Process(target=_iso_child, args=(pw, fn, args))
    p.start()
    pw.close()
    if not pr.poll(timeout):
        p.kill()
        raise core.HarnessError("isolated trial timed out")
    try:
        kind, val = pr.recv()
    except EOFError:
        p.join()
        raise core.HarnessError("isolated trial died")
    p.join()
    if kind == "err":
        raise core.HarnessError("isolated trial failed:\n" + val)
    return val


def replay_runs(engine, prop, runs, tier):
    """Execute recorded runs in order in this process; the verdict is that of
    the last one."""
    res = None
    from . import seams
    for r in runs:
        seams.install_sim_id(r.get("seed", 0) or 0)
        res = engine.replay_run(prop, r, tier)
    return res


def same_violation(res, clause):
    return bool(res) and "violation" in res and \
        res["violation"]["clause"] == clause


# --------------------------------------------------------------------------
# minimisation
# --------------------------------------------------------------------------
def ddmin_list(items, test, budget):
    """Classic ddmin over a list; test(sublist) -> True if still failing."""
    n = 2
    items = list(items)
    while len(items) >= 2 and budget[0] > 0:
        size = max(1, len(items) // n)
        chunks = [items[i:i + size] for i in range(0, len(items), size)]
        reduced = False
        for i in range(len(chunks)):
            if budget[0] <= 0:
                break
            cand = [x for j, c in enumerate(chunks) if j != i for x in c]
            budget[0] -= 1
            if test(cand):
                items = cand
                n = max(n - 1, 2)
                reduced = True
                break
        if not reduced:
            if n >= len(items):
                break
            n = min(len(items), n * 2)
    return items


def minimise(engine, prop, runs, clause, tier, max_trials=250, max_wall=150):
    t0 = time.time()
    budget = [max_trials]

    def still(cand_runs):
        if time.time() - t0 > max_wall:
            budget[0] = 0
            return False
        try:
            res = isolated(replay_runs, engine, prop, cand_runs, tier)
        except core.HarnessError:
            return False
        return same_violation(res, clause)

    # 1. drop prelude runs
    if len(runs) > 1:
        budget[0] -= 1
        if still(runs[-1:]):
            runs = runs[-1:]
        else:
            pre = ddmin_list(runs[:-1], lambda c: still(c + runs[-1:]),
                             budget)
            runs = pre + runs[-1:]
    # 2. shrink the ops of the failing run
    last = dict(runs[-1])
    if "ops" in last and last["ops"]:
        def test_ops(ops):
            cand = dict(last)
            cand["ops"] = ops
            return still(runs[:-1] + [cand])
        # the failing op is the last executed one: keep it, shrink the prefix
        ops = last["ops"]
        tail = ops[-1:] if getattr(engine, "KEEP_TAIL", False) else []
        head = ddmin_list(ops[:len(ops) - len(tail)],
                          lambda c: test_ops(c + tail), budget)
        last["ops"] = head + tail
        runs = runs[:-1] + [last]
    # 3. engine-specific simplifications
    shr = getattr(engine, "shrink_candidates", None)
    if shr is not None:
        progress = True
        while progress and budget[0] > 0:
            progress = False
            for cand in shr(runs[-1]):
                if budget[0] <= 0:
                    break
                budget[0] -= 1
                if still(runs[:-1] + [cand]):
                    runs = runs[:-1] + [cand]
                    progress = True
                    break
    return runs, max_trials - budget[0]


# --------------------------------------------------------------------------
# main flow
# --------------------------------------------------------------------------
def report_violation(engine, prop, tier, root, res, all_results):
    """Isolate, minimise, write the replay file, confirm in a fresh
    interpreter.  Returns (exit code, replay path)."""
    clause = res["violation"]["clause"]
    runs = [res["trace"]]
    solo = isolated(replay_runs, engine, prop, runs, tier)
    if not same_violation(solo, clause):
        # depends on what ran before it in the same process: replay the
        # chunk prefix
        lo, hi = res["chunk"]
        prefix = [r["trace"] for r in all_results
                  if lo <= r["idx"] < hi and "trace" in r]
        if len(prefix) != hi - lo:
            # traces of predecessors were not shipped: regenerate them
            prefix = []
            for idx in range(lo, hi):
                rr = isolated(engine.run_one, prop, tier, root, idx,
                              engine.extra(prop, tier))
                prefix.append(rr["trace"])
        runs = prefix + [res["trace"]]
        again = isolated(replay_runs, engine, prop, runs, tier)
        if not same_violation(again, clause):
            print(f"HARNESS-ERROR property={prop} violation of {clause} in "
                  f"run {res['idx']} did not reproduce in isolation")
            return EXIT_HARNESS, None
    n_before = sum(len(r.get("ops", [])) for r in runs)
    runs, trials = minimise(engine, prop, runs, clause, tier)
    final = isolated(replay_runs, engine, prop, runs, tier)
    if not same_violation(final, clause):
        print(f"HARNESS-ERROR property={prop} minimised trace lost the "
              "violation")
        return EXIT_HARNESS, None
    path = core.replay_path(prop, res["seed"])
    rec = {"property": prop, "clause": clause, "engine": engine.NAME,
           "verif_seed": root, "tier": tier, "run_index": res["idx"],
           "run_seed": res["seed"], "runs": runs,
           "violation": final["violation"], "minimised": True,
           "ops_before_minimisation": n_before,
           "ops_after_minimisation": sum(len(r.get("ops", []))
                                         for r in runs),
           "minimiser_trials": trials, "repo": REPO}
    core.write_json(path, rec)
    # fresh interpreter
    env = dict(os.environ)
    env["PYTHONHASHSEED"] = "0"
    p = subprocess.run([sys.executable, os.path.join(VERIF, "bin", "check"),
                        prop, "--replay", path, "--expect", clause],
                       capture_output=True, text=True, env=env, timeout=900)
    rec["reproduced_in_fresh_process"] = (p.returncode == EXIT_VIOLATION)
    core.write_json(path, rec)
    if p.returncode != EXIT_VIOLATION:
        print(f"HARNESS-ERROR property={prop} replay {path} did not "
              f"reproduce in a fresh interpreter (exit {p.returncode})")
        print(p.stdout[-2000:])
        print(p.stderr[-2000:])
        return EXIT_HARNESS, path
    v = final["violation"]
    print(f"violated clause: {clause}: {v['msg']}")
    print("detail: " + json.dumps(v.get("detail"), sort_keys=True)[:1500])
    print(f"minimised {n_before} -> {rec['ops_after_minimisation']} ops in "
          f"{trials} trials; runs in replay: {len(runs)}")
    print(f"VIOLATION property={prop} replay={path}")
    return EXIT_VIOLATION, path


def run_check(engine, prop, tier, root, n_runs=None):
    t0 = time.time()
    b = engine.budget(prop, tier)
    if n_runs:
        b["runs"] = n_runs
    if os.environ.get("VERIF_WALL"):
        # optional lower wall cap (can only reduce the number of runs)
        b["wall"] = min(b.get("wall") or 10 ** 9,
                        core.env_int("VERIF_WALL", b.get("wall") or 3300))
    print(f"VERIF_SEED={root} property={prop} tier={tier} engine="
          f"{engine.NAME} runs={b['runs']} repo={REPO}")
    known = findings.Known(prop)
    exit_code = EXIT_OK
    # directed runs of open findings first
    directed = getattr(engine, "directed", None)
    if directed is not None:
        for fid, status in directed(prop, tier, known):
            pass
    try:
        results, truncated = core.run_batch(
            engine.run_one, prop, tier, root, b["runs"],
            extra=engine.extra(prop, tier), chunk=b.get("chunk", 20),
            wall_cap=b.get("wall"), hang_s=b.get("hang", 600))
    except core.HarnessError as e:
        print(f"HARNESS-ERROR property={prop} {e}")
        return EXIT_HARNESS
    counters = core.Counters()
    states, classes, nontrivial = set(), set(), set()
    steps = ops = sut_errors = 0
    samples = []
    viols = []
    abandoned = [r for r in results if "harness_error" in r]
    results = [r for r in results if "harness_error" not in r]
    for r in abandoned[:3]:
        last = r["harness_error"].strip().splitlines()[-1]
        print(f"HARNESS-WARNING property={prop} run {r['idx']} abandoned "
              f"(exception inside the harness, no verdict): {last}")
    for r in results:
        counters.merge(r.get("counters", {}))
        states.update(r.get("states", ()))
        classes.update(r.get("classes", ()))
        steps += r.get("steps", 0)
        ops += r.get("ops", 0)
        if r.get("progress", 0) > 0 or r.get("nontrivial"):
            nontrivial.add(r.get("case_digest") or core.digest(
                core.jsonable(r.get("trace"))))
        if "sut_error" in r:
            sut_errors += 1
        for fid, n in (r.get("known_hits") or {}).items():
            for _ in range(n):
                known.hit(fid)
        if "violation" in r:
            fid = known.match(r)
            if fid:
                known.hit(fid)
            else:
                viols.append(r)
        if "violation" in r and r.get("known") and not known.match(r):
            # the worker treated it as known but the directed run says the
            # finding is repaired: report it (chunk successors were run too)
            pass
        if len(samples) < 2 and r.get("trace") and r.get("ops", 0) > 0:
            fn = getattr(engine, "sample", None)
            samples.append(core.jsonable(fn(r)) if fn else _sample(r))
    replay = None
    if viols:
        first = min(viols, key=lambda r: r["idx"])
        exit_code, replay = report_violation(engine, prop, tier, root, first,
                                             results)
    elif results and sut_errors > 0.5 * len(results):
        print(f"HARNESS-ERROR property={prop} the SUT raised in "
              f"{sut_errors}/{len(results)} runs; no verdict "
              "(exceptions are C10's business)")
        exit_code = EXIT_HARNESS
    known.print_lines()
    wall = time.time() - t0
    d = engine.describe(prop)
    runs_done = len(results)
    coverage = {
        "evaluations": runs_done,
        "distinct_nontrivial": len(nontrivial),
        "rule": d["rule"],
        "samples": samples or [{"note": "no run produced ops"}],
        "exhaustive": False,
        "runs_requested": b["runs"],
        "truncated_by_wall_cap": truncated,
        "ops": ops,
        "simulated_time_steps": steps,
        "runs_per_hour": round(runs_done / wall * 3600) if wall > 0 else 0,
        "seeds_per_hour": round(runs_done / wall * 3600) if wall > 0 else 0,
        "distinct_states": len(states),
        "distinct_transition_classes": len(classes),
        "fault_kinds_fired": counters.group("fault."),
        "probes": counters.group("probe."),
        "probes_at_zero": [p for p in d.get("probes", [])
                           if counters.get("probe." + p, 0) == 0],
        "ops_by_kind": counters.group("op."),
        "workload": counters.group("workload."),
        "other_counters": {k: v for k, v in sorted(counters.items())
                           if not k.startswith(("fault.", "probe.", "op.",
                                                "workload."))},
        "sut_exceptions_outside_property": sut_errors,
        "runs_abandoned_by_harness_exception": len(abandoned),
        "harness_exception_samples": [
            r["harness_error"].strip().splitlines()[-1]
            for r in abandoned[:3]],
        "components_real": d.get("real", []),
        "components_stub": d.get("stub", []),
        "known_finding_hits": known.hits,
        "replay": replay,
    }
    core.write_evidence(prop, tier, root, d["level"], coverage,
                        d["assumptions"], wall,
                        1 if exit_code == EXIT_VIOLATION else 0)
    print(f"property={prop} runs={runs_done} ops={ops} steps={steps} "
          f"states={len(states)} classes={len(classes)} "
          f"nontrivial={len(nontrivial)} wall={wall:.1f}s exit={exit_code}")
    return exit_code


def _sample(r):
    t = r["trace"]
    out = {"run_index": r["idx"], "run_seed": r["seed"]}
    if isinstance(t, dict):
        for k, v in t.items():
            if k == "ops":
                out["ops"] = v[:12]
                out["ops_total"] = len(v)
            elif k == "spec" and isinstance(v, dict) and "text" in v:
                out["spec"] = {"kind": v["kind"],
                               "text_head": v["text"][:400]}
            else:
                out[k] = v
    return core.jsonable(out)


def run_replay(engine, prop, path, expect=None):
    with open(path) as f:
        rec = json.load(f)
    tier = rec.get("tier", "quick")
    res = replay_runs(engine, prop, rec["runs"], tier)
    if res and "violation" in res:
        clause = res["violation"]["clause"]
        print(f"replay: {clause}: {res['violation']['msg']}")
        print("detail: " + json.dumps(res["violation"].get("detail"),
                                      sort_keys=True)[:1500])
        if expect and clause != expect:
            print(f"replay: expected clause {expect}")
            return EXIT_HARNESS
        print(f"VIOLATION property={prop} replay={path}")
        return EXIT_VIOLATION
    print("replay: no violation")
    return EXIT_OK
