"""Command line: python -m dsim.cli <ID> [--tier T] [--replay F] [--runs N]"""
import argparse
import os
import sys
import traceback

from . import core


def engine_for(prop):
    if prop in ("C01", "C02", "C03", "C04", "C05", "C06", "C07", "C08", "C09",
                "C10", "C11", "C13"):
        from . import engine_env
        return engine_env
    if prop in ("C12", "C19"):
        from . import engine_multi
        return engine_multi
    if prop in ("C15", "C16"):
        from . import engine_gen
        return engine_gen
    if prop in ("C17", "C18"):
        from . import engine_doc
        return engine_doc
    if prop == "C14":
        from . import engine_proc
        return engine_proc
    if prop == "C20":
        from . import engine_bound
        return engine_bound
    raise SystemExit(f"unknown property {prop}")


def main(argv=None):
    ap = argparse.ArgumentParser()
    ap.add_argument("prop")
    ap.add_argument("--tier", default=None)
    ap.add_argument("--replay", default=None)
    ap.add_argument("--expect", default=None)
    ap.add_argument("--runs", type=int, default=None)
    ap.add_argument("--seed", type=int, default=None)
    a = ap.parse_args(argv)
    from . import import_nasim, driver
    try:
        import_nasim()
    except Exception:
        traceback.print_exc()
        print(f"HARNESS-ERROR property={a.prop} cannot import nasim")
        return core.EXIT_HARNESS
    tier = a.tier or core.tier_from_env()
    root = a.seed if a.seed is not None else core.env_int("VERIF_SEED", 0)
    eng = engine_for(a.prop)
    try:
        if a.replay:
            return driver.run_replay(eng, a.prop, a.replay, a.expect)
        return driver.run_check(eng, a.prop, tier, root, a.runs)
    except core.HarnessError as e:
        print(f"HARNESS-ERROR property={a.prop} {e}")
        return core.EXIT_HARNESS
    except Exception:
        traceback.print_exc()
        print(f"HARNESS-ERROR property={a.prop} unexpected exception")
        return core.EXIT_HARNESS


if __name__ == "__main__":
    sys.exit(main())
