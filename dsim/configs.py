"""Configurations a run is run on: shipped benchmarks, generated scenarios,
random valid YAML documents, hand-shaped families.  A *spec* is a small
JSON-able dict from which the scenario can be rebuilt exactly (replay)."""
import math
import os
import tempfile

from . import REPO, core, docgen, reader

BENCH_DIR = os.path.join(REPO, "nasim", "scenarios", "benchmark")
SHIPPED = ["tiny", "tiny-hard", "tiny-small", "small", "small-honeypot",
           "small-linear", "medium", "medium-single-site",
           "medium-multi-site"]
GEN_BENCH = ["tiny-gen", "tiny-gen-rgoal", "small-gen", "small-gen-rgoal",
             "medium-gen", "large-gen", "huge-gen", "pocp-1-gen",
             "pocp-2-gen"]

_TMP = None
_LOADER = None
_GENERATOR = None


_TMP_OWNER = None


def tmpdir():
    """Run-private scratch directory of this process (removed by
    cleanup_tmp, which every forked worker calls before it exits)."""
    global _TMP, _TMP_OWNER
    if _TMP is None or _TMP_OWNER != os.getpid() or not os.path.isdir(_TMP):
        _TMP = tempfile.mkdtemp(prefix="dsim-")
        _TMP_OWNER = os.getpid()
        import atexit
        atexit.register(cleanup_tmp)
    return _TMP


def cleanup_tmp():
    global _TMP
    if _TMP is not None and _TMP_OWNER == os.getpid():
        import shutil
        shutil.rmtree(_TMP, ignore_errors=True)
        _TMP = None


def shipped_text(name):
    with open(os.path.join(BENCH_DIR, name + ".yaml")) as f:
        return f.read()


def write_doc(text, tag="doc"):
    # the scratch directory is private to the process, so the file name can
    # be stable (it becomes the scenario name when none is given)
    path = os.path.join(tmpdir(), f"{tag}.yaml")
    with open(path, "w") as f:
        f.write(text)
    return path


_DOC_CACHE = {}


def parse_doc(text):
    """Parsed copy of a (well-formed, generated) document for deriving
    siblings from it - never used as an oracle's view of the file."""
    import copy
    import yaml
    d = _DOC_CACHE.get(text)
    if d is None:
        loader = getattr(yaml, "CSafeLoader", yaml.SafeLoader)
        d = yaml.load(text, Loader=loader)
        if len(_DOC_CACHE) > 8:
            _DOC_CACHE.clear()
        _DOC_CACHE[text] = d
    return copy.deepcopy(d)


def yaml_name(text):
    h = sum(map(ord, text[:200]))
    return "doc" if h % 5 else SHIPPED[h % len(SHIPPED)]


def variant_spec(spec, rng, name=None, keep_order=True):
    """A sibling of `spec`: the same scenario name and the same vector layout
    (sizes, bounds, names - in the same order when keep_order), other
    numbers: costs, probabilities, host configurations, firewall, step
    limit.  None if there is no obvious one."""
    import yaml
    from . import docgen
    kind = spec["kind"]
    if kind == "genbench":
        return {"kind": "genbench", "name": spec["name"],
                "seed": (spec.get("seed") or 0) + 1 + rng.randint(0, 5)}
    if kind == "generated":
        p = dict(spec["params"])
        p["seed"] = (int(p.get("seed") or 0) + 1 + rng.randint(0, 5)) \
            % (2 ** 31)
        for _ in range(rng.randint(1, 3)):
            m = rng.choice(["scan", "probs_one", "probs", "costs", "none"])
            if m == "scan":
                for c in ("service_scan_cost", "os_scan_cost",
                          "subnet_scan_cost", "process_scan_cost"):
                    p[c] = rng.choice([2, 3, 4])
            elif m == "probs_one":
                p["exploit_probs"] = 1.0
                p["privesc_probs"] = 1.0
            elif m == "probs":
                p["exploit_probs"] = rng.choice([0.3, 0.6, "mixed"])
            elif m == "costs":
                p["exploit_cost"] = rng.choice([2, 3])
                p["privesc_cost"] = rng.choice([2, 3])
        return {"kind": "generated", "params": p}
    if kind == "benchmark":
        text, nm = shipped_text(spec["name"]), spec["name"]
    elif kind == "yaml":
        text, nm = spec["text"], name or spec.get("name") or \
            yaml_name(spec["text"])
    else:
        return None
    try:
        doc = parse_doc(text)
        if rng.random() < 0.15:
            # the same names, number of subnets and largest subnet (= the
            # same vector layout) but other subnet sizes: another number of
            # hosts, other host numbering
            import random as _random
            d2 = docgen.gen_doc(_random.Random(rng.getrandbits(48)),
                                like=doc, step_limit=None)
            if len(d2["subnets"]) == len(doc["subnets"]) and \
                    max(d2["subnets"]) == max(doc["subnets"]):
                return {"kind": "yaml", "text": docgen.emit(d2), "name": nm}
        hosts = doc["host_configurations"]
        muts = ["scan", "probs_one", "probs", "costs", "swap_hosts",
                "access", "fw_open", "fw_some", "limit", "public",
                "add_host", "add_host"]
        if not keep_order:
            muts += ["reorder", "reorder", "reorder"]
        for m in rng.sample(muts, rng.randint(1, 3)):
            if m == "scan":
                for c in ("service_scan_cost", "os_scan_cost",
                          "subnet_scan_cost", "process_scan_cost"):
                    doc[c] = doc[c] + rng.choice([1, 2, 3])
            elif m in ("probs_one", "probs"):
                for sec in ("exploits", "privilege_escalation"):
                    for e in (doc.get(sec) or {}).values():
                        e["prob"] = 1.0 if m == "probs_one" else \
                            round(rng.uniform(0.1, 0.9), 2)
            elif m == "costs":
                for sec in ("exploits", "privilege_escalation"):
                    for e in (doc.get(sec) or {}).values():
                        e["cost"] = e["cost"] + rng.choice([1, 2])
            elif m == "swap_hosts":
                keys = list(hosts)
                if len(keys) >= 2:
                    cfgs = [(hosts[k]["os"], hosts[k]["services"],
                             hosts[k]["processes"]) for k in keys]
                    cfgs = cfgs[1:] + cfgs[:1]
                    for k, (o, sv, pr) in zip(keys, cfgs):
                        hosts[k]["os"], hosts[k]["services"], \
                            hosts[k]["processes"] = o, sv, pr
            elif m == "access":
                for e in doc["exploits"].values():
                    e["access"] = "root" if e["access"] in ("user", 1) \
                        else "user"
            elif m == "fw_open":
                for k in doc["firewall"]:
                    doc["firewall"][k] = list(doc["services"])
            elif m == "fw_some":
                for k in doc["firewall"]:
                    if rng.random() < 0.4:
                        doc["firewall"][k] = []
            elif m == "limit":
                doc["step_limit"] = rng.choice([5, 50, 1000])
            elif m == "add_host":
                # one more machine in a subnet that is not the largest: the
                # vector layout stays, the number of hosts does not
                sizes = [int(x) for x in doc["subnets"]]
                small = [i for i, z in enumerate(sizes) if z < max(sizes)]
                if small:
                    i = rng.choice(small)
                    import copy as _copy
                    tmpl = _copy.deepcopy(next(iter(hosts.values())))
                    tmpl.pop("firewall", None)
                    tmpl.pop("value", None)
                    hosts[docgen.A(i + 1, sizes[i])] = tmpl
                    sizes[i] += 1
                    doc["subnets"] = sizes
            elif m == "public":
                # another subnet is open to the internet (topology and the
                # two firewall rules); the vector layout stays the same
                n = len(doc["subnets"])
                T = doc["topology"]
                closed = [j for j in range(1, n + 1) if not T[0][j]]
                if closed:
                    j = rng.choice(closed)
                    T[0][j] = T[j][0] = 1
                    doc["firewall"][docgen.A(0, j)] = list(doc["services"])
                    doc["firewall"][docgen.A(j, 0)] = []
            elif m == "reorder":
                for sec in ("os", "services", "processes"):
                    names = list(doc[sec])
                    if len(names) >= 2 and rng.random() < 0.7:
                        k = rng.randint(1, len(names) - 1)
                        doc[sec] = names[k:] + names[:k]
        return {"kind": "yaml", "text": docgen.emit(doc), "name": nm}
    except Exception:
        return None


def build(spec, want_cfg=True):
    """spec -> (scenario, cfg).  Raises whatever the SUT raises."""
    import nasim
    import numpy as np
    kind = spec["kind"]
    if kind == "yaml" and not want_cfg:
        name = spec.get("name") or yaml_name(spec["text"])
        path = write_doc(spec["text"], tag=name)
        return nasim.load_scenario(path, name=name), None
    if kind == "benchmark":
        text = shipped_text(spec["name"])
        cfg = reader.from_yaml_text(text, name=spec["name"])
        scen = nasim.load_scenario(
            os.path.join(BENCH_DIR, spec["name"] + ".yaml"),
            name=spec["name"])
        return scen, cfg
    if kind == "yaml":
        # the name is free: a user's own file may be called like a benchmark;
        # a ScenarioLoader instance may be reused for several files
        h = sum(map(ord, spec["text"][:200]))
        name = spec.get("name") or yaml_name(spec["text"])
        cfg = reader.from_yaml_text(spec["text"], name=name, fast=True)
        path = write_doc(spec["text"], tag=name)
        if h % 3 == 0:
            global _LOADER
            if _LOADER is None:
                from nasim.scenarios import ScenarioLoader
                _LOADER = ScenarioLoader()
            scen = _LOADER.load(path, name=name if h % 2 else None)
        else:
            scen = nasim.load_scenario(path, name=name if h % 2 else None)
        return scen, cfg
    if kind == "generated":
        params = dict(spec["params"])
        if params.get("address_space_bounds") is not None and \
                params.get("seed", 0) % 2 == 0:
            # the documented type is "tuple/list of length 2": every other
            # parameter set passes a tuple, the others keep the list
            params["address_space_bounds"] = tuple(
                params["address_space_bounds"])
        st = np.random.get_state()
        try:
            if spec.get("then") is not None:
                # one ScenarioGenerator instance reused for a second
                # generation: the first scenario must not change any more
                global _GENERATOR
                if _GENERATOR is None:
                    from nasim.scenarios import ScenarioGenerator
                    _GENERATOR = ScenarioGenerator()
                scen = guarded_generate(_GENERATOR.generate, **params)
                cfg = reader.from_generated(scen)
                p2 = dict(spec["then"])
                if p2.get("address_space_bounds") is not None:
                    p2["address_space_bounds"] = tuple(
                        p2["address_space_bounds"])
                guarded_generate(_GENERATOR.generate, **p2)
                return scen, cfg
            scen = guarded_generate(nasim.generate_scenario, **params)
        finally:
            np.random.set_state(st)
        return scen, reader.from_generated(scen)
    if kind == "genbench":
        st = np.random.get_state()
        try:
            if spec.get("np_seed") is not None:
                # unseeded creation: the scenario is drawn from the global
                # generator, whose state is part of the op ("same draws")
                np.random.seed(spec["np_seed"])
            scen = guarded_generate(nasim.make_benchmark_scenario,
                                    spec["name"], spec["seed"])
        finally:
            np.random.set_state(st)
        return scen, reader.from_generated(scen)
    raise ValueError(kind)


# --------------------------------------------------------------------------
# generator parameter swarm (documented domain, DESIGN.md C15)
# --------------------------------------------------------------------------
def gen_subnets(num_hosts):
    """Subnet sizes the documentation/formula prescribes (incl. internet)."""
    dmz = math.ceil(num_hosts / 40)
    sens = math.ceil(num_hosts / 41)
    user = num_hosts - dmz - sens
    subs = [1, dmz, sens] + [5] * (user // 5)
    if user % 5:
        subs.append(user % 5)
    return subs


def gen_params(rng, max_hosts=120, allow_alpha1=False, small_bias=True):
    if small_bias and rng.random() < 0.7:
        n = rng.randint(3, min(max_hosts, 25))
    else:
        n = rng.randint(3, max_hosts)
    if rng.random() < 0.08:
        # boundaries of the host-assignment formula (DMZ / sensitive sizes
        # change at multiples of 40 / 41, user subnets at multiples of 5)
        n = rng.choice([x for x in (3, 4, 5, 7, 8, 12, 13, 40, 41, 42, 43,
                                    80, 81, 82, 83, 84, 120)
                        if x <= max_hosts] or [n])
    uniform = rng.random() < 0.25
    S = rng.randint(1, 8 if uniform else 12)
    OS = rng.randint(1, 5)
    if rng.random() < 0.05:
        OS = rng.randint(10, 13)      # more names than single digits
    if not uniform and rng.random() < 0.03:
        S = rng.randint(65, 72)       # more services than bits in a word
    P = rng.randint(1, 5)
    p = {"num_hosts": n, "num_services": S, "num_os": OS,
         "num_processes": P, "uniform": uniform}
    r = rng.random()
    if r < 0.5:
        p["num_exploits"] = None
    else:
        p["num_exploits"] = rng.randint(1, S * (OS + 1))
    r = rng.random()
    if r < 0.5:
        p["num_privescs"] = None
    else:
        p["num_privescs"] = rng.randint(1, P * (OS + 1))
    ne = p["num_exploits"] or S
    npe = p["num_privescs"] or P
    p["restrictiveness"] = rng.randint(1, 8)

    def alpha():
        r = rng.random()
        if r < 0.15 and allow_alpha1:
            return 1.0
        if r < 0.35:
            return round(rng.uniform(0.05, 0.95), 3)
        if r < 0.6:
            return 2.0
        return round(rng.uniform(1.05, 10.0), 3)
    p["alpha_H"] = alpha()
    p["alpha_V"] = alpha()
    p["lambda_V"] = rng.choice([1.0, 1.0, 0.3, 2.5, 5.0,
                                round(rng.uniform(0.05, 10), 3)])
    if core.h64(f"lv|{n}|{S}|{OS}|{P}|{p['alpha_H']}") % 25 == 0:
        p["lambda_V"] = (1e-9, 1e-4, 0.01)[
            core.h64(f"lv2|{n}|{S}|{p['alpha_V']}") % 3]   # tiny but > 0

    def probs(k, mixed_ok):
        r = rng.random()
        if r < 0.2:
            return None
        if r < 0.4 and mixed_ok:
            return "mixed"
        if r < 0.7:
            return rng.choice([1.0, 1.0, 0.5, 0.9, 0.05,
                               round(rng.uniform(0.01, 1.0), 3)])
        return [rng.choice([1.0, 0.3, 0.6, 0.9, 0.004, 0.996,
                            round(rng.uniform(0.01, 1.0), 3)])
                for _ in range(k)]
    p["exploit_probs"] = probs(ne, True)
    p["privesc_probs"] = probs(npe, False)
    cost = [1, 1, 1, 2, 3, 0.5, 1.5]
    p["exploit_cost"] = rng.choice(cost)
    p["privesc_cost"] = rng.choice(cost)
    for k in ("service_scan_cost", "os_scan_cost", "subnet_scan_cost",
              "process_scan_cost"):
        p[k] = rng.choice([1, 1, 1, 2, 0.5, 0, 3])
    p["r_sensitive"] = rng.choice([10, 100, 100, 1, 2.5, 1000, 0.5, 0.1])
    p["r_user"] = rng.choice([10, 100, 100, 1, 2.5, 1000, 0.5, 0.1])
    p["random_goal"] = rng.random() < 0.4
    p["base_host_value"] = rng.choice([1, 1, 1, 0, -1, 0.5, 5, -10])
    p["host_discovery_value"] = rng.choice([1, 1, 1, 0, -1, 0.5, 3])
    p["step_limit"] = rng.choice([None, None, 1000, rng.randint(1, 50)])
    subs = gen_subnets(n)
    r = rng.random()
    if r < 0.7:
        p["address_space_bounds"] = None
    else:
        p["address_space_bounds"] = [len(subs) + rng.randint(0, 4),
                                     max(subs) + rng.randint(0, 4)]
    if p["address_space_bounds"] is not None and rng.random() < 0.03:
        # very wide address space (host vectors of more than 1000 entries)
        p["address_space_bounds"] = [len(subs) + rng.choice([0, 1000]),
                                     max(subs) + rng.choice([0, 1100])]
        if p["address_space_bounds"] == [len(subs), max(subs)]:
            p["address_space_bounds"][0] += 1000
    p["seed"] = rng.randint(0, 2 ** 31 - 1)
    return p


def fix_params(p, rng):
    """Re-establish the documented domain after num_services / num_os /
    num_processes of a parameter set were overridden."""
    S, OS, P = p["num_services"], p["num_os"], p["num_processes"]
    if p["uniform"]:
        p["num_services"] = S = min(S, 8)
    if p.get("num_exploits") is not None:
        p["num_exploits"] = max(1, min(p["num_exploits"], S * (OS + 1)))
    if p.get("num_privescs") is not None:
        p["num_privescs"] = max(1, min(p["num_privescs"], P * (OS + 1)))
    ne = p.get("num_exploits") or S
    npe = p.get("num_privescs") or P
    for key, k in (("exploit_probs", ne), ("privesc_probs", npe)):
        if isinstance(p.get(key), list) and len(p[key]) != k:
            p[key] = [rng.choice([1.0, 0.3, 0.6, 0.9]) for _ in range(k)]
    return p


GEN_LINE_BUDGET = 5_000_000


def reject_params(p, rng):
    """Make the parameter set one the generator rejects (at different depths
    of the generation); returns how."""
    how = rng.choice(["exploit_probs_len", "privesc_probs_range",
                      "bounds_small", "privesc_probs_len",
                      "exploit_probs_range"])
    if how == "exploit_probs_len":
        p["exploit_probs"] = [0.5] * ((p.get("num_exploits")
                                       or p["num_services"]) + 1)
    elif how == "privesc_probs_len":
        p["privesc_probs"] = [0.5] * ((p.get("num_privescs")
                                       or p["num_processes"]) + 1)
    elif how == "privesc_probs_range":
        p["privesc_probs"] = 1.5
    elif how == "exploit_probs_range":
        p["exploit_probs"] = 0.0
    else:
        p["address_space_bounds"] = [1, 1]
    return how


def guarded_generate(fn, *a, **k):
    """Call a generator entry point under a virtual-time budget so that a
    non-terminating generation is an exception, never a hang."""
    from . import seams
    lb = seams.LineBudget("nasim/scenarios/generator.py", GEN_LINE_BUDGET)
    try:
        with lb:
            return fn(*a, **k)
    except seams.BudgetExceeded as e:
        raise RuntimeError(f"generator did not terminate: {e}")


def c20_domain(params):
    """Restrict generator parameters to the C20 cost/value domain."""
    p = dict(params)
    for k in ("exploit_cost", "privesc_cost", "service_scan_cost",
              "os_scan_cost", "subnet_scan_cost", "process_scan_cost"):
        if p[k] < 1:
            p[k] = 1
    if p["base_host_value"] > 1:
        p["base_host_value"] = 1
    return p


# --------------------------------------------------------------------------
# drawing a configuration for an environment-level run
# --------------------------------------------------------------------------
def draw_spec(rng, mix=None):
    """Weighted mix: shipped / generated / random document / hand-shaped."""
    mix = mix or {"benchmark": 0.15, "generated": 0.25, "yaml": 0.5,
                  "family": 0.1}
    r = rng.random() * sum(mix.values())
    for kind in ("benchmark", "generated", "yaml", "family"):
        w = mix.get(kind, 0)
        if r < w:
            break
        r -= w
    if kind == "benchmark":
        # small ones dominate; medium occasionally
        name = rng.choice(SHIPPED[:6] * 3 + SHIPPED[6:])
        return {"kind": "benchmark", "name": name}
    if kind == "generated":
        if rng.random() < 0.15:
            return {"kind": "genbench",
                    "name": rng.choice(GEN_BENCH[:5] * 4 + GEN_BENCH[5:7]),
                    "seed": rng.randint(0, 10 ** 6)}
        p = gen_params(rng, max_hosts=50)
        spec = {"kind": "generated", "params": p}
        if rng.random() < 0.15:
            spec["then"] = gen_params(rng, max_hosts=30)
        return spec
    if kind == "yaml":
        doc = docgen.gen_doc(rng, big=rng.random() < 0.05)
        return {"kind": "yaml", "text": docgen.emit(doc, rng)}
    return family_spec(rng)


def family_spec(rng, which=None):
    """Hand-shaped families for particular clauses."""
    which = which or rng.choice(["pivot_traffic", "internet_only", "star",
                                 "two_sensitive_one_subnet", "honeypot",
                                 "deny_heavy", "balanced_tree",
                                 "balanced_tree", "asymmetric"] * 3
                                + ["many_services", "many_services",
                                   "long_chain"])
    if which == "asymmetric":
        doc = docgen.gen_doc(rng, shape=rng.choice(["random", "tree"]),
                             max_subnets=4, asym=True, open_firewall=True,
                             step_limit=None)
        return {"kind": "yaml", "text": docgen.emit(doc, rng),
                "family": which}
    if which == "balanced_tree":
        return balanced_tree_spec(rng)
    if which == "many_services":
        return many_services_spec(rng)
    if which == "long_chain":
        return long_chain_spec(rng)
    if which == "pivot_traffic":
        # pivot (has access) and traffic source differ: chain with closed
        # rules in one direction and per-host deny lists
        doc = docgen.gen_doc(rng, shape="random", max_subnets=4,
                             deny_rate=0.8, n_public=1, step_limit=None)
    elif which == "internet_only":
        doc = docgen.gen_doc(rng, shape=rng.choice(["chain", "star"]),
                             n_public=rng.choice([1, 2]), deny_rate=0.6,
                             step_limit=None)
        # make the internet rule of the first public subnet restrictive
        srvs = doc["services"]
        for k in list(doc["firewall"]):
            if k.startswith("(0,"):
                doc["firewall"][k] = rng.sample(
                    srvs, rng.randint(0, max(0, len(srvs) - 1)))
    elif which == "star":
        doc = docgen.gen_doc(rng, shape="star", max_subnets=5,
                             open_firewall=True, step_limit=None)
    elif which == "two_sensitive_one_subnet":
        doc = docgen.gen_doc(rng, max_subnets=3, max_hosts=4,
                             step_limit=rng.choice([None, 5, 20]))
        # put two sensitive hosts in the largest subnet
        sizes = doc["subnets"]
        s = max(range(len(sizes)), key=lambda i: sizes[i]) + 1
        if sizes[s - 1] >= 2:
            doc["sensitive_hosts"] = {f"({s}, 0)": 100, f"({s}, 1)": 50}
            for k in (f"({s}, 0)", f"({s}, 1)"):
                doc["host_configurations"][k].pop("value", None)
            for k, h in doc["host_configurations"].items():
                if k not in doc["sensitive_hosts"] and "value" not in h:
                    pass
            # non-sensitive hosts that used to be sensitive keep no value
    elif which == "honeypot":
        doc = docgen.gen_doc(rng, max_subnets=3, step_limit=None)
        sens = {docgen.reader_addr(k) for k in doc["sensitive_hosts"]}
        for k, h in doc["host_configurations"].items():
            if docgen.reader_addr(k) not in sens and rng.random() < 0.5:
                h["value"] = rng.choice([-100, -1, -0.5])
    else:
        doc = docgen.gen_doc(rng, deny_rate=0.95, step_limit=None)
    # a host that used to be sensitive may still carry its old value as an
    # ordinary host value: that is legal.
    return {"kind": "yaml", "text": docgen.emit(doc, rng), "family": which}


def balanced_tree_spec(rng):
    """Public root subnet with two equal branches of depth two and equal
    subnet sizes: different episodes can discover different host sets of the
    same size.  Everything is exploitable so that episodes make progress."""
    k = rng.choice([1, 2])
    doc = docgen.gen_doc(rng, shape="chain", max_subnets=1, step_limit=None)
    srvs, procs, oss = doc["services"], doc["processes"], doc["os"]
    n = 5
    T = [[1 if i == j else 0 for j in range(n + 1)] for i in range(n + 1)]
    for a, b in ((0, 1), (1, 2), (1, 3), (2, 4), (3, 5)):
        T[a][b] = T[b][a] = 1
    doc["subnets"] = [k] * n
    doc["topology"] = T
    hosts = {}
    for s in range(1, n + 1):
        for h in range(k):
            hosts[docgen.A(s, h)] = {"os": oss[0], "services": list(srvs),
                                     "processes": list(procs)}
    doc["host_configurations"] = hosts
    doc["sensitive_hosts"] = {docgen.A(4, 0): 100, docgen.A(5, 0): 100}
    for e in doc["exploits"].values():
        e["os"] = "none"
        e["prob"] = rng.choice([1.0, 0.8])
    if not doc["privilege_escalation"]:
        doc["privilege_escalation"] = {"pe0": {"process": procs[0],
                                               "os": "none", "prob": 1.0,
                                               "cost": 1, "access": "root"}}
    fw = {}
    for i in range(n + 1):
        for j in range(n + 1):
            if i != j and T[i][j] == 1:
                fw[docgen.A(i, j)] = list(srvs)
    doc["firewall"] = fw
    doc["step_limit"] = rng.choice([6, 8, 12])
    return {"kind": "yaml", "text": docgen.emit(doc, rng),
            "family": "balanced_tree"}


def many_services_spec(rng):
    """More than 64 services (bit tables, one-hot blocks and name lookups
    beyond the usual sizes).  The internet rule admits only low-numbered
    services, so that an exploit of a high-numbered service can only come
    from a compromised host - and the targets' deny-lists name exactly those
    hosts for the high services: the host firewall is the deciding rule."""
    doc = docgen.gen_doc(rng, shape="chain", max_subnets=2, max_hosts=1,
                         deny_rate=0.0, step_limit=None, n_public=1)
    n = len(doc["subnets"])
    sizes = [3] + [2] * (n - 1)
    doc["subnets"] = sizes
    srvs = [f"s{i}" for i in range(70)]
    doc["services"] = srvs
    addrs = [(s + 1, h) for s in range(n) for h in range(sizes[s])]
    keys = [docgen.A(*a) for a in addrs]
    hi = srvs[62:]
    hosts = {}
    for k in keys:
        hosts[k] = {"os": doc["os"][0],
                    "services": ["s1"] + rng.sample(srvs[2:], rng.randint(
                        20, 68)),
                    "processes": list(doc["processes"]),
                    "firewall": {src: rng.sample(hi, rng.randint(
                        len(hi) - 2, len(hi))) for src in keys}}
    doc["host_configurations"] = hosts
    doc["sensitive_hosts"] = {keys[-1]: 100}
    doc["exploits"] = {
        "e_lo": {"service": "s1", "os": "none", "prob": 1.0, "cost": 1,
                 "access": "root"},
        "e_hi_a": {"service": rng.choice(hi[2:]), "os": "none",
                   "prob": rng.choice([1.0, 0.8]), "cost": 1,
                   "access": "root"},
        "e_hi_b": {"service": rng.choice(hi[2:]), "os": "none", "prob": 1.0,
                   "cost": 2, "access": "user"}}
    T = doc["topology"]
    fw = {}
    for i in range(n + 1):
        for j in range(n + 1):
            if i != j and T[i][j] == 1:
                fw[docgen.A(i, j)] = srvs[:10] if i == 0 else list(srvs)
    doc["firewall"] = fw
    return {"kind": "yaml", "text": docgen.emit(doc, rng),
            "family": "many_services"}


def long_chain_spec(rng):
    """A chain of 130 one-host subnets (subnet ids beyond int8)."""
    n = 130
    doc = docgen.gen_doc(rng, max_subnets=1, max_hosts=1, step_limit=None,
                         deny_rate=0.0)
    srvs, procs, oss = doc["services"], doc["processes"], doc["os"]
    T = [[1 if i == j else 0 for j in range(n + 1)] for i in range(n + 1)]
    for i in range(0, n):
        T[i][i + 1] = T[i + 1][i] = 1
    doc["subnets"] = [1] * n
    doc["topology"] = T
    doc["host_configurations"] = {
        docgen.A(s, 0): {"os": oss[0], "services": list(srvs),
                         "processes": list(procs)}
        for s in range(1, n + 1)}
    doc["sensitive_hosts"] = {docgen.A(3, 0): 100, docgen.A(n, 0): 100}
    for e in doc["exploits"].values():
        e["os"] = "none"
        e["prob"] = 1.0
    doc["firewall"] = {docgen.A(i, j): list(srvs)
                       for i in range(n + 1) for j in range(n + 1)
                       if i != j and T[i][j] == 1}
    return {"kind": "yaml", "text": docgen.emit(doc, rng),
            "family": "long_chain"}
