"""Known findings: genuine defects recorded rather than repaired.

/verif/known_findings.json (committed, never written at run time) switches the
predicates below on ('open') or documents repaired defects ('fixed', which
suppress nothing).  A predicate is a narrow signature over one violation
record, so a different violation of the same property is still reported."""
import json
import os

from . import VERIF

PATH = os.path.join(VERIF, "known_findings.json")


def load():
    if not os.path.exists(PATH):
        return []
    with open(PATH) as f:
        return json.load(f)


# ---- predicates: result dict (with 'violation') -> bool ---------------------
def _d9(res):
    v = res["violation"]
    d = v.get("detail", {})
    return (v["clause"] == "C15.no-raise"
            and d.get("exception") == "ZeroDivisionError"
            and d.get("raised_in") == "_dirichlet_sample"
            and d.get("alpha_V") == 1.0 and d.get("uniform") is False)


def _d10(res):
    v = res["violation"]
    d = v.get("detail", {})
    return (v["clause"] in ("C19.solo", "C19.no-touch")
            and d.get("victim_is_last_constructed") is False
            and d.get("victim_layout_differs_from_last_constructed") is True)


PREDICATES = {"D9": _d9, "D10": _d10}


class Known:
    def __init__(self, prop):
        self.prop = prop
        self.entries = [e for e in load() if e.get("property") == prop]
        self.open = {e["id"]: e for e in self.entries
                     if e.get("status") == "open"}
        self.hits = {fid: 0 for fid in self.open}
        self.directed = {}     # fid -> True (reproduced) / False

    def match(self, res):
        for fid in self.open:
            if self.directed.get(fid) is False:
                continue        # repaired: nothing is suppressed any more
            pred = PREDICATES.get(fid)
            if pred is not None and pred(res):
                return fid
        return None

    def hit(self, fid):
        self.hits[fid] = self.hits.get(fid, 0) + 1

    def print_lines(self):
        for fid, e in sorted(self.open.items()):
            n = self.hits.get(fid, 0)
            rep = self.directed.get(fid)
            if rep is False:
                print(f"KNOWN-FINDING: property={self.prop} {fid} no longer "
                      f"reproduces on its stored example ({e['what']}); "
                      f"nothing is suppressed for it; seeded-search hits: "
                      f"{n}")
            else:
                print(f"KNOWN-FINDING: property={self.prop} {fid} "
                      f"{e['what']} [directed example "
                      f"{'reproduced' if rep else 'not run'}; further hits "
                      f"in the seeded search: {n}]")
