"""The documented vector layout (HostVector docstring / C09 statement), as an
independent encoder/decoder.  Row = subnet one-hot (bounds[0]), host one-hot
(bounds[1]), compromised, reachable, discovered, value, discovery value,
access, OS flags, service flags, process flags (scenario order)."""
import numpy as np


class Layout:
    def __init__(self, cfg):
        b0, b1 = cfg.bounds
        self.cfg = cfg
        self.subnet = slice(0, b0)
        self.host = slice(b0, b0 + b1)
        c = b0 + b1
        self.comp, self.reach, self.disc = c, c + 1, c + 2
        self.value, self.dvalue, self.access = c + 3, c + 4, c + 5
        o = c + 6
        self.os = slice(o, o + len(cfg.os))
        s = o + len(cfg.os)
        self.srv = slice(s, s + len(cfg.services))
        p = s + len(cfg.services)
        self.proc = slice(p, p + len(cfg.processes))
        self.size = p + len(cfg.processes)
        self.addr_cols = list(range(0, c))
        self.groups = {
            "address": list(range(0, c)),
            "compromised": [self.comp], "reachable": [self.reach],
            "discovered": [self.disc], "value": [self.value],
            "discovery_value": [self.dvalue], "access": [self.access],
            "os": list(range(self.os.start, self.os.stop)),
            "services": list(range(self.srv.start, self.srv.stop)),
            "processes": list(range(self.proc.start, self.proc.stop)),
        }

    def config_row(self, addr):
        """Row with the configuration part filled in, status columns zero."""
        cfg = self.cfg
        h = cfg.hosts[addr]
        row = np.zeros(self.size, dtype=np.float32)
        row[self.subnet.start + addr[0]] = 1
        row[self.host.start + addr[1]] = 1
        row[self.value] = h["value"]
        row[self.dvalue] = h["discovery_value"]
        for i, o in enumerate(cfg.os):
            row[self.os.start + i] = 1 if h["os"] == o else 0
        for i, s in enumerate(cfg.services):
            row[self.srv.start + i] = 1 if s in h["services"] else 0
        for i, p in enumerate(cfg.processes):
            row[self.proc.start + i] = 1 if p in h["processes"] else 0
        return row

    def encode(self, status):
        cfg = self.cfg
        m = np.zeros((len(cfg.order), self.size), dtype=np.float32)
        for i, a in enumerate(cfg.order):
            row = self.config_row(a)
            comp, reach, disc, acc = status[a]
            row[self.comp], row[self.reach], row[self.disc] = comp, reach, disc
            row[self.access] = acc
            m[i] = row
        return m

    def decode_row(self, row):
        cfg = self.cfg
        return {
            "address": (int(np.argmax(row[self.subnet])),
                        int(np.argmax(row[self.host]))),
            "compromised": float(row[self.comp]),
            "reachable": float(row[self.reach]),
            "discovered": float(row[self.disc]),
            "value": float(row[self.value]),
            "discovery_value": float(row[self.dvalue]),
            "access": float(row[self.access]),
            "os": {o: float(row[self.os.start + i])
                   for i, o in enumerate(cfg.os)},
            "services": {s: float(row[self.srv.start + i])
                         for i, s in enumerate(cfg.services)},
            "processes": {p: float(row[self.proc.start + i])
                          for i, p in enumerate(cfg.processes)},
        }
