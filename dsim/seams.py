"""Seams: the simulator owns every source of nondeterminism the properties
depend on.  No hook in /repo is needed: the package dereferences the module
global ``np`` at call time, so the simulator replaces that global by a proxy.

ScriptedNumpy   -- proxy for ``nasim.envs.network.np``: ``.random`` serves
                   uniform draws from a script pushed by the simulator and
                   logs every draw; anything that is not a uniform draw is
                   served by a private seeded RandomState and counted as
                   'unscripted'.
CountingNumpy   -- proxy for ``nasim.scenarios.generator.np``: real global
                   RandomState behaviour bit for bit, plus a draw counter and
                   a draw budget (virtual time of the generator).
LineBudget      -- sys.settrace line counter restricted to frames of one
                   source file; raises BudgetExceeded inside the traced code.
"""
import sys
import numpy as _np


class BudgetExceeded(BaseException):
    """Virtual-time budget of a traced region exhausted (BaseException so
    that ``except Exception`` inside the SUT cannot swallow it)."""


class ScriptExhausted(Exception):
    pass


UNIFORM_FUNCS = ("rand", "random", "random_sample", "ranf", "sample",
                 "uniform")


class ScriptedRandom:
    """Stands in for ``np.random`` inside nasim.envs.network."""

    def __init__(self):
        self.script = []      # uniform values still to serve
        self.log = []         # (func, value) for every draw served
        self.unscripted = 0   # draws that were not uniform draws
        self.exhausted = 0    # uniform draws requested with an empty script
        self._private = _np.random.RandomState(12345)
        self.default = 0.5

    # -- control -----------------------------------------------------------
    def push(self, values):
        self.script = list(values)
        self.log = []
        self.unscripted = 0
        self.exhausted = 0

    def reseed_private(self, seed):
        self._private = _np.random.RandomState(seed % (2 ** 32))

    def _next(self, func):
        if getattr(self, "passthrough", False):
            v = float(_np.random.rand())     # the real global generator
            self.log.append((func, v))
            return v
        if self.script:
            v = self.script.pop(0)
        else:
            self.exhausted += 1
            v = self.default
        self.log.append((func, v))
        return v

    # -- uniform entry points ---------------------------------------------
    def _uniform(self, func, shape):
        if not shape or shape == (None,):
            return self._next(func)
        n = 1
        dims = []
        for d in shape:
            if isinstance(d, (tuple, list)):
                dims.extend(int(x) for x in d)
            else:
                dims.append(int(d))
        for d in dims:
            n *= d
        return _np.array([self._next(func) for _ in range(n)]).reshape(dims)

    def rand(self, *shape):
        return self._uniform("rand", shape)

    def random(self, size=None):
        return self._uniform("random", () if size is None else (size,))

    def random_sample(self, size=None):
        return self._uniform("random_sample",
                             () if size is None else (size,))

    ranf = random_sample
    sample = random_sample

    def uniform(self, low=0.0, high=1.0, size=None):
        u = self._uniform("uniform", () if size is None else (size,))
        return low + (high - low) * u

    # -- anything else: private generator, counted -------------------------
    def __getattr__(self, name):
        attr = getattr(self._private, name)
        if callable(attr):
            def wrapped(*a, **k):
                self.unscripted += 1
                self.log.append((name, None))
                return attr(*a, **k)
            return wrapped
        return attr


class NullScript:
    """Stand-in used when the real generator is left in place."""
    log = ()
    unscripted = 0

    def push(self, values):
        pass

    def reseed_private(self, seed):
        pass


class ScriptedNumpy:
    def __init__(self):
        self.random = ScriptedRandom()

    def __getattr__(self, name):
        return getattr(_np, name)


class scripted_network:
    """Context manager installing a ScriptedNumpy as nasim.envs.network.np."""

    def __init__(self):
        self.proxy = ScriptedNumpy()

    def __enter__(self):
        import nasim.envs.network as nw
        self._mod = nw
        self._old = nw.np
        nw.np = self.proxy
        return self.proxy.random

    def __exit__(self, *exc):
        self._mod.np = self._old
        return False


# --------------------------------------------------------------------------
class CountingRandom:
    """Forwards to the real global numpy.random, counting calls."""

    def __init__(self, budget=None):
        self.draws = 0
        self.budget = budget

    def __getattr__(self, name):
        attr = getattr(_np.random, name)
        if callable(attr) and name not in ("seed", "get_state", "set_state"):
            def wrapped(*a, **k):
                self.draws += 1
                if self.budget is not None and self.draws > self.budget:
                    raise BudgetExceeded(f"draw budget {self.budget}")
                return attr(*a, **k)
            return wrapped
        return attr


class CountingNumpy:
    def __init__(self, budget=None):
        self.random = CountingRandom(budget)

    def __getattr__(self, name):
        return getattr(_np, name)


class counting_generator:
    """Context manager installing a CountingNumpy as
    nasim.scenarios.generator.np."""

    def __init__(self, budget=None):
        self.proxy = CountingNumpy(budget)

    def __enter__(self):
        import nasim.scenarios.generator as g
        self._mod = g
        self._old = g.np
        g.np = self.proxy
        return self.proxy.random

    def __exit__(self, *exc):
        self._mod.np = self._old
        return False


# --------------------------------------------------------------------------
class LineBudget:
    """Counts 'line' trace events in frames whose code lives in ``filename``
    (suffix match) and raises BudgetExceeded when ``budget`` is exceeded."""

    def __init__(self, filename_suffix, budget):
        self.suffix = filename_suffix
        self.budget = budget
        self.lines = 0
        self.where = None

    def _local(self, frame, event, arg):
        if event == "line":
            self.lines += 1
            if self.lines > self.budget:
                self.where = (frame.f_code.co_name, frame.f_lineno)
                raise BudgetExceeded(
                    f"line budget {self.budget} exceeded in "
                    f"{frame.f_code.co_name}:{frame.f_lineno}")
        return self._local

    def _global(self, frame, event, arg):
        if event == "call" and frame.f_code.co_filename.endswith(self.suffix):
            return self._local
        return None

    def __enter__(self):
        self._old = sys.gettrace()
        sys.settrace(self._global)
        return self

    def __exit__(self, *exc):
        sys.settrace(self._old)
        return False
