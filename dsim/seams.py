"""Seams: the simulator owns every source of nondeterminism the properties
depend on.  No hook in /repo is needed: the package dereferences the module
global ``np`` at call time, so the simulator replaces that global by a proxy.

ScriptedNumpy   -- proxy for ``nasim.envs.network.np``: ``.random`` serves
                   uniform draws from a script pushed by the simulator and
                   logs every draw; anything that is not a uniform draw is
                   served by a private seeded RandomState and counted as
                   'unscripted'.
CountingNumpy   -- proxy for ``nasim.scenarios.generator.np``: real global
                   RandomState behaviour bit for bit, plus a draw counter and
                   a draw budget (virtual time of the generator).
LineBudget      -- sys.settrace line counter restricted to frames of one
                   source file; raises BudgetExceeded inside the traced code.
"""
import sys
import numpy as _np


class BudgetExceeded(BaseException):
    """Virtual-time budget of a traced region exhausted (BaseException so
    that ``except Exception`` inside the SUT cannot swallow it)."""


class ScriptExhausted(Exception):
    pass


UNIFORM_FUNCS = ("rand", "random", "random_sample", "ranf", "sample",
                 "uniform")


class ScriptedRandom:
    """Stands in for ``np.random`` inside nasim.envs.network."""

    def __init__(self):
        self.script = []      # uniform values still to serve
        self.log = []         # (func, value) for every draw served
        self.unscripted = 0   # draws that were not uniform draws
        self.exhausted = 0    # uniform draws requested with an empty script
        self._private = _np.random.RandomState(12345)
        self.default = 0.5

    # -- control -----------------------------------------------------------
    def push(self, values):
        self.script = list(values)
        self.log = []
        self.unscripted = 0
        self.exhausted = 0

    def reseed_private(self, seed):
        self._private = _np.random.RandomState(seed % (2 ** 32))

    def _next(self, func):
        if getattr(self, "passthrough", False):
            v = float(_np.random.rand())     # the real global generator
            self.log.append((func, v))
            return v
        if self.script:
            v = self.script.pop(0)
        else:
            self.exhausted += 1
            v = self.default
        self.log.append((func, v))
        return v

    # -- uniform entry points ---------------------------------------------
    def _uniform(self, func, shape):
        if not shape or shape == (None,):
            return self._next(func)
        n = 1
        dims = []
        for d in shape:
            if isinstance(d, (tuple, list)):
                dims.extend(int(x) for x in d)
            else:
                dims.append(int(d))
        for d in dims:
            n *= d
        return _np.array([self._next(func) for _ in range(n)]).reshape(dims)

    def rand(self, *shape):
        return self._uniform("rand", shape)

    def random(self, size=None):
        return self._uniform("random", () if size is None else (size,))

    def random_sample(self, size=None):
        return self._uniform("random_sample",
                             () if size is None else (size,))

    ranf = random_sample
    sample = random_sample

    def uniform(self, low=0.0, high=1.0, size=None):
        u = self._uniform("uniform", () if size is None else (size,))
        return low + (high - low) * u

    # -- anything else: private generator, counted -------------------------
    def __getattr__(self, name):
        attr = getattr(self._private, name)
        if callable(attr):
            def wrapped(*a, **k):
                self.unscripted += 1
                self.log.append((name, None))
                return attr(*a, **k)
            return wrapped
        return attr


class NullScript:
    """Stand-in used when the real generator is left in place."""
    log = ()
    unscripted = 0

    def push(self, values):
        pass

    def reseed_private(self, seed):
        pass


class ScriptedNumpy:
    def __init__(self):
        self.random = ScriptedRandom()

    def __getattr__(self, name):
        return getattr(_np, name)


class scripted_network:
    """Context manager installing a ScriptedNumpy as nasim.envs.network.np."""

    def __init__(self):
        self.proxy = ScriptedNumpy()

    def __enter__(self):
        import nasim.envs.network as nw
        self._mod = nw
        self._old = nw.np
        nw.np = self.proxy
        return self.proxy.random

    def __exit__(self, *exc):
        self._mod.np = self._old
        return False


# --------------------------------------------------------------------------
class CountingRandom:
    """Forwards to the real global numpy.random, counting calls."""

    def __init__(self, budget=None):
        self.draws = 0
        self.budget = budget

    def __getattr__(self, name):
        attr = getattr(_np.random, name)
        if callable(attr) and name not in ("seed", "get_state", "set_state"):
            def wrapped(*a, **k):
                self.draws += 1
                if self.budget is not None and self.draws > self.budget:
                    raise BudgetExceeded(f"draw budget {self.budget}")
                return attr(*a, **k)
            return wrapped
        return attr


class CountingNumpy:
    def __init__(self, budget=None):
        self.random = CountingRandom(budget)

    def __getattr__(self, name):
        return getattr(_np, name)


class counting_generator:
    """Context manager installing a CountingNumpy as
    nasim.scenarios.generator.np."""

    def __init__(self, budget=None):
        self.proxy = CountingNumpy(budget)

    def __enter__(self):
        import nasim.scenarios.generator as g
        self._mod = g
        self._old = g.np
        g.np = self.proxy
        return self.proxy.random

    def __exit__(self, *exc):
        self._mod.np = self._old
        return False


# --------------------------------------------------------------------------
class LineBudget:
    """Counts 'line' trace events in frames whose code lives in ``filename``
    (suffix match) and raises BudgetExceeded when ``budget`` is exceeded."""

    def __init__(self, filename_suffix, budget):
        self.suffix = filename_suffix
        self.budget = budget
        self.lines = 0
        self.where = None

    def _local(self, frame, event, arg):
        if event == "line":
            self.lines += 1
            if self.lines > self.budget:
                self.where = (frame.f_code.co_name, frame.f_lineno)
                raise BudgetExceeded(
                    f"line budget {self.budget} exceeded in "
                    f"{frame.f_code.co_name}:{frame.f_lineno}")
        return self._local

    def _global(self, frame, event, arg):
        if event == "call" and frame.f_code.co_filename.endswith(self.suffix):
            return self._local
        return None

    def __enter__(self):
        self._old = sys.gettrace()
        sys.settrace(self._global)
        return self

    def __exit__(self, *exc):
        sys.settrace(self._old)
        return False


# --------------------------------------------------------------------------
class SimId:
    """The simulator's stand-in for the builtin ``id`` inside every loaded
    ``nasim`` module (a module global named ``id`` shadows the builtin).

    Which address a new object gets - in particular whether it gets the
    address of an object that has just died - is decided by the memory
    allocator, i.e. by the whole history of the process: a source of
    nondeterminism.  Behind this seam the decision is the simulator's: every
    object whose id is asked for is tracked with a weak reference; when it
    dies its simulated address goes to a free list, and a *new* object is
    handed (by policy) the most recently freed address, as CPython's pool
    allocator typically does for objects of one size class.  Only addresses
    of objects that are really dead are ever reused, so code that is correct
    under CPython's rules sees nothing it could not see in a real process.
    The shipped tree never calls ``id``; the seam matters for changed trees
    that key a memo by ``id(obj)`` without keeping ``obj`` alive."""

    BASE = 0x7F3A00000000
    current = None

    def __init__(self, seed=0):
        import weakref
        self._weakref = weakref
        k = (seed % (2 ** 31)) % 6
        # whose address a new object gets: of the same type / of anything /
        # never a used one; and which of the recently freed ones: the last
        # freed, the one before, or a (deterministic) mix of the last four
        self.policy = ("same_type", "same_type", "same_type", "same_type",
                       "any", "never")[k]
        self.pick = ("mix", "mix", "lifo", "second", "mix", "lifo")[k]
        self.salt = seed % (2 ** 31)
        self.registry = {}        # real id -> (weakref, simulated address)
        self.dead = {}            # type -> [freed simulated addresses]
        self.dead_all = []
        self.next = 0
        self.calls = 0
        self.reused = 0
        self.fallback = 0
        self.installed = []

    def __call__(self, obj):
        self.calls += 1
        rid = id(obj)
        ent = self.registry.get(rid)
        if ent is not None and ent[0]() is obj:
            return ent[1]
        t = type(obj)
        try:
            wr = self._weakref.ref(obj, self._died(rid, t))
        except TypeError:
            self.fallback += 1
            return rid
        addr = None
        if self.policy == "same_type":
            pool = self.dead.get(t)
            if pool:
                addr = pool.pop(self._which(len(pool)))
                if addr in self.dead_all:
                    self.dead_all.remove(addr)
        elif self.policy == "any":
            if self.dead_all:
                addr = self.dead_all.pop(self._which(len(self.dead_all)))
                for pool in self.dead.values():
                    if addr in pool:
                        pool.remove(addr)
        if addr is None:
            addr = self.BASE + 64 * self.next
            self.next += 1
        else:
            self.reused += 1
        self.registry[rid] = (wr, addr)
        return addr

    def _which(self, n):
        """Index (from the end) of the freed address to hand out."""
        if self.pick == "lifo" or n == 1:
            return -1
        if self.pick == "second":
            return -2
        h = (self.salt * 2654435761 + self.calls * 40503) % 1000003
        return -1 - (h % min(n, 4))

    def _died(self, rid, t):
        def cb(wr, self=self, rid=rid, t=t):
            ent = self.registry.get(rid)
            if ent is not None and ent[0] is wr:
                del self.registry[rid]
                self.dead.setdefault(t, []).append(ent[1])
                self.dead_all.append(ent[1])
                if len(self.dead_all) > 256:
                    old = self.dead_all.pop(0)
                    for pool in self.dead.values():
                        if old in pool:
                            pool.remove(old)
        return cb

    def install(self):
        for name, mod in list(sys.modules.items()):
            if (name == "nasim" or name.startswith("nasim.")) and \
                    mod is not None and "id" not in vars(mod):
                mod.id = self
                self.installed.append(mod)
        SimId.current = self
        return self

    def uninstall(self):
        for mod in self.installed:
            if vars(mod).get("id") is self:
                del mod.id
        self.installed = []
        if SimId.current is self:
            SimId.current = None


def install_sim_id(seed):
    """(Re)install the id seam for one run; the previous run's table is
    dropped."""
    if SimId.current is not None:
        SimId.current.uninstall()
    # when an object dies must be the simulation's doing as well: cyclic
    # garbage is collected only at points the harness names (run start, an
    # environment being replaced), never by the allocation-count trigger
    import gc
    gc.disable()
    gc.collect()
    # everything that exists now is set aside: the collections at the
    # drop points only have to look at what the run itself created
    gc.freeze()
    import nasim.envs            # noqa: F401  (make sure the modules exist)
    import nasim.scenarios       # noqa: F401
    return SimId(seed).install()


def collect_now():
    """A point at which dropped environments really die (see SimId)."""
    import gc
    gc.collect()
