"""Reference semantics (DESIGN.md section 3), written from the property
statements and the tutorials.  Pure functions of (Config, status, action).

status: dict addr -> (comp, reach, disc, access)   with ints
action: Act (see below) built from the public attributes of the Action object
        the environment executes.
"""
from collections import namedtuple

ROOT = 2
USER = 1

Act = namedtuple("Act", "kind target name cost prob req_access service process os access")
# kind in: exploit privesc service_scan os_scan subnet_scan process_scan noop

KIND_OF_CLASS = {"Exploit": "exploit", "PrivilegeEscalation": "privesc",
                 "ServiceScan": "service_scan", "OSScan": "os_scan",
                 "SubnetScan": "subnet_scan", "ProcessScan": "process_scan",
                 "NoOp": "noop"}


def act_of(action):
    """Act from a nasim Action object (public attributes only)."""
    kind = KIND_OF_CLASS[type(action).__name__]
    return Act(kind=kind,
               target=(int(action.target[0]), int(action.target[1])),
               name=action.name,
               cost=action.cost,
               prob=float(action.prob),
               req_access=int(action.req_access),
               service=getattr(action, "service", None),
               process=getattr(action, "process", None),
               os=getattr(action, "os", None),
               access=(int(action.access)
                       if kind in ("exploit", "privesc") else None))


def initial_status(cfg):
    st = {}
    for a in cfg.order:
        pub = 1 if cfg.public(a[0]) else 0
        st[a] = (0, pub, pub, 0)
    return st


def host_runs_os(cfg, h, os):
    return os is None or cfg.hosts[h]["os"] == os


def host_pre(cfg, st, a):
    """Host-level preconditions of an exploit / escalation (C01)."""
    h = cfg.hosts[a.target]
    if a.kind == "exploit":
        return a.service in h["services"] and host_runs_os(cfg, a.target, a.os)
    if a.kind == "privesc":
        comp, _, _, acc = st[a.target]
        return bool(comp and acc >= a.req_access
                    and (a.process is None or a.process in h["processes"])
                    and host_runs_os(cfg, a.target, a.os))
    return True


def visible(st, t):
    return bool(st[t][1] and st[t][2])


def compromised(st):
    return [h for h, s in st.items() if s[0]]


def pivot_ok(cfg, st, a):
    t = a.target
    if cfg.public(t[0]):
        return True
    for c, s in st.items():
        if not s[0] or s[3] < a.req_access:
            continue
        if a.kind == "exploit":
            if c[0] == t[0]:
                return True
            if cfg.connected(c[0], t[0]) and \
               a.service in cfg.firewall.get((c[0], t[0]), ()):
                return True
        else:
            if cfg.connected(c[0], t[0]):
                return True
    return False


def traffic_ok(cfg, st, a):
    """Exploit traffic admitted from some attacker-controlled position."""
    t = a.target
    if cfg.public(t[0]) and cfg.connected(0, t[0]) and \
       a.service in cfg.firewall.get((0, t[0]), ()):
        return True
    hf = cfg.hosts[t]["firewall"]
    for c, s in st.items():
        if not s[0]:
            continue
        if c[0] != t[0]:
            if not cfg.connected(c[0], t[0]):
                continue
            if a.service not in cfg.firewall.get((c[0], t[0]), ()):
                continue
        if a.service in hf.get(c, ()):
            continue
        return True
    return False


def onhost_ok(st, a):
    comp, _, _, acc = st[a.target]
    return bool(comp and acc >= a.req_access)


def net_pre(cfg, st, a):
    if a.kind == "noop":
        return True
    if not visible(st, a.target):
        return False
    if a.kind in ("service_scan", "os_scan"):
        return pivot_ok(cfg, st, a)
    if a.kind == "exploit":
        return pivot_ok(cfg, st, a) and traffic_ok(cfg, st, a)
    return onhost_ok(st, a)


def why_blocked(cfg, st, a):
    """Class of the first missing network-level precondition (for probes)."""
    if a.kind == "noop":
        return None
    if not st[a.target][1]:
        return "unreachable"
    if not st[a.target][2]:
        return "undiscovered"
    if a.kind in ("service_scan", "os_scan", "exploit"):
        if not pivot_ok(cfg, st, a):
            return "no_pivot"
        if a.kind == "exploit" and not traffic_ok(cfg, st, a):
            return "traffic"
        return None
    if not st[a.target][0]:
        return "not_compromised"
    if st[a.target][3] < a.req_access:
        return "low_access"
    return None


def expected_reachable(cfg, st):
    comp_subnets = {h[0] for h, s in st.items() if s[0]}
    out = {}
    for h in cfg.order:
        out[h] = bool(cfg.public(h[0]) or
                      any(cfg.connected(c, h[0]) for c in comp_subnets))
    return out


def scan_discovers(cfg, t):
    return {h for h in cfg.order if cfg.connected(t[0], h[0])}


def goal(cfg, st):
    return all(st[h][3] >= ROOT for h in cfg.sensitive)


def apply_success(cfg, st, a):
    """Model next status after a *successful* action (used by planners and by
    the few clauses that pin an outcome).  Returns (status, value)."""
    st = dict(st)
    value = 0.0
    if a.kind in ("exploit", "privesc"):
        comp, reach, disc, acc = st[a.target]
        if acc < ROOT and a.access == ROOT:
            value = cfg.hosts[a.target]["value"]
        st[a.target] = (1, reach, disc, max(acc, a.access))
        if a.kind == "exploit":
            for h in cfg.order:
                if cfg.connected(a.target[0], h[0]) and not st[h][1]:
                    s = st[h]
                    st[h] = (s[0], 1, s[2], s[3])
    elif a.kind == "subnet_scan":
        for h in scan_discovers(cfg, a.target):
            s = st[h]
            if not s[2]:
                value += cfg.hosts[h]["discovery_value"]
                st[h] = (s[0], s[1], 1, s[3])
    return st, value


def feq(a, b, tol=1e-5):
    a = float(a)
    b = float(b)
    return abs(a - b) <= tol * max(1.0, abs(a), abs(b))
