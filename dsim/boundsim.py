"""boundsim - the advertised score upper bound (C20).

Configurations of the C20 cost/value domain (every action costs >= 1, no
non-sensitive host worth more than 1), biased to branching topologies.  The
reference model supplies the minimum number of hosts that must be compromised
(exact, Dreyfus-Wagner over the subnet graph) and goal-reaching plans; the
plans are replayed on the real environment with the draws forced to succeed,
and only a real episode that earns more than the advertised bound counts as a
violation of C20.bound.
"""
import itertools

from . import core, configs, docgen, model, gensim, envsim
from .core import Violation
from .envsim import EnvSim, SutError

INF = 10 ** 9


def in_domain(cfg):
    costs = [e["cost"] for e in cfg.exploits.values()] + \
        [p["cost"] for p in cfg.privescs.values()] + \
        list(cfg.scan_cost.values())
    if any(c < 1 for c in costs):
        return False
    for a, h in cfg.hosts.items():
        if a not in cfg.sensitive and h["value"] > 1:
            return False
    return True


def min_hosts(cfg):
    """Smallest number of hosts that must be compromised to hold root on all
    sensitive hosts when firewalls are ignored: #sensitive hosts + minimum
    number of non-sensitive subnets that connect all sensitive subnets to the
    internet node.  None if some sensitive subnet cannot be connected."""
    n = len(cfg.subnets)
    T = cfg.topology
    # all-pairs shortest paths (edges = hops between subnets, internet = 0)
    d = [[0 if i == j else (1 if T[i][j] == 1 or T[j][i] == 1 else INF)
          for j in range(n)] for i in range(n)]
    for k in range(n):
        for i in range(n):
            for j in range(n):
                if d[i][k] + d[k][j] < d[i][j]:
                    d[i][j] = d[i][k] + d[k][j]
    terms = [0] + sorted({a[0] for a in cfg.sensitive})
    k = len(terms)
    if any(d[0][t] >= INF for t in terms):
        return None
    import numpy as np
    D = np.array(d, dtype=np.int64)
    full = (1 << k) - 1
    dp = np.full((full + 1, n), INF, dtype=np.int64)
    for i, t in enumerate(terms):
        dp[1 << i] = D[t]
    for mask in range(1, full + 1):
        if mask & (mask - 1) == 0:
            continue
        best = dp[mask]
        sub = (mask - 1) & mask
        while sub:
            rest = mask ^ sub
            if sub < rest:
                np.minimum(best, dp[sub] + dp[rest], out=best)
            sub = (sub - 1) & mask
        dp[mask] = np.min(best[:, None] + D, axis=0)
    edges = int(dp[full].min())
    if edges >= INF:
        return None
    extra_subnets = edges + 1 - k
    return len(cfg.sensitive) + extra_subnets


def random_plan(cfg, rng, max_steps=400):
    """A goal-reaching plan by randomised productive choices of the reference
    model (all draws succeed); None if the goal is not reached."""
    st = model.initial_status(cfg)
    plan = []
    for _ in range(max_steps):
        if model.goal(cfg, st):
            return plan
        cands = []
        for h in cfg.order:
            if st[h][0] and st[h][3] >= 1 and any(
                    not st[x][2] for x in model.scan_discovers(cfg, h)):
                cands.append(model.Act("subnet_scan", h, "subnet_scan",
                                       cfg.scan_cost["subnet_scan"], 1.0, 1,
                                       None, None, None, None))
        for h in cfg.order:
            if not model.visible(st, h) or st[h][3] >= 2:
                continue
            for name, e in cfg.exploits.items():
                if e["access"] <= st[h][3] or e["prob"] <= 0:
                    continue
                a = model.Act("exploit", h, name, e["cost"], e["prob"], 1,
                              e["service"], None, e["os"], e["access"])
                if model.host_pre(cfg, st, a) and model.net_pre(cfg, st, a):
                    cands.append(a)
            if st[h][0]:
                for name, pe in cfg.privescs.items():
                    if pe["access"] <= st[h][3] or pe["prob"] <= 0:
                        continue
                    a = model.Act("privesc", h, name, pe["cost"], pe["prob"],
                                  1, None, pe["process"], pe["os"],
                                  pe["access"])
                    if model.host_pre(cfg, st, a) and \
                            model.net_pre(cfg, st, a):
                        cands.append(a)
        if not cands:
            return None
        # prefer sensitive hosts and scans
        pref = [a for a in cands if a.target in cfg.sensitive
                or a.kind == "subnet_scan"]
        a = rng.choice(pref if pref and rng.random() < 0.7 else cands)
        st, _ = model.apply_success(cfg, st, a)
        plan.append(a)
    return None


def exact_best_plan(cfg, max_states=60000):
    """Exact maximum total reward of a goal-reaching history in the reference
    model (all draws succeed), by memoised search over the monotone state
    graph.  Only for small configurations; None when the budget is exceeded
    or the goal is unreachable.  -> (total, plan)"""
    import sys
    order = cfg.order
    memo = {}
    NEG = float("-inf")

    def actions(st):
        out = []
        for h in order:
            if st[h][0] and st[h][3] >= 1 and any(
                    not st[x][2] for x in model.scan_discovers(cfg, h)):
                out.append(model.Act("subnet_scan", h, "subnet_scan",
                                     cfg.scan_cost["subnet_scan"], 1.0, 1,
                                     None, None, None, None))
            if not model.visible(st, h) or st[h][3] >= 2:
                continue
            for name, e in cfg.exploits.items():
                if e["access"] <= st[h][3] or e["prob"] <= 0:
                    continue
                a = model.Act("exploit", h, name, e["cost"], e["prob"], 1,
                              e["service"], None, e["os"], e["access"])
                if model.host_pre(cfg, st, a) and model.net_pre(cfg, st, a):
                    out.append(a)
            if st[h][0]:
                for name, pe in cfg.privescs.items():
                    if pe["access"] <= st[h][3] or pe["prob"] <= 0:
                        continue
                    a = model.Act("privesc", h, name, pe["cost"], pe["prob"],
                                  1, None, pe["process"], pe["os"],
                                  pe["access"])
                    if model.host_pre(cfg, st, a) and \
                            model.net_pre(cfg, st, a):
                        out.append(a)
        return out

    class Budget(Exception):
        pass

    def f(st):
        key = tuple(st[h] for h in order)
        if key in memo:
            return memo[key]
        if len(memo) > max_states:
            raise Budget()
        best = (0.0, None) if model.goal(cfg, st) else (NEG, None)
        for a in actions(st):
            nxt, val = model.apply_success(cfg, st, a)
            sub = f(nxt)[0]
            if sub == NEG:
                continue
            tot = val - a.cost + sub
            if tot > best[0]:
                best = (tot, a)
        memo[key] = best
        return best
    old = sys.getrecursionlimit()
    sys.setrecursionlimit(10000)
    try:
        st = model.initial_status(cfg)
        total, _ = f(st)
        if total == NEG:
            return None
        plan = []
        while True:
            t, a = f(st)
            if a is None:
                break
            plan.append(a)
            st, _ = model.apply_success(cfg, st, a)
        return total, plan
    except Budget:
        return None
    finally:
        sys.setrecursionlimit(old)


def c20_spec(rng, idx):
    if idx < len(configs.SHIPPED):
        return {"kind": "benchmark", "name": configs.SHIPPED[idx]}
    r = rng.random()
    if r < 0.15:
        return {"kind": "genbench", "name": rng.choice(configs.GEN_BENCH[:7]),
                "seed": rng.randint(0, 10 ** 6)}
    if r < 0.40:
        p = configs.c20_domain(configs.gen_params(rng, max_hosts=60))
        spec = {"kind": "generated", "params": p}
        if rng.random() < 0.2:
            spec["then"] = configs.c20_domain(
                configs.gen_params(rng, max_hosts=30))
        return spec
    if r < 0.55:
        return shaped_spec(rng, rng.choice(["departments", "two_level",
                                            "two_level", "deep_branches"]))
    shape = rng.choice(["star", "star", "tree", "tree", "random", "chain",
                        "clique", "split"])
    doc = docgen.gen_doc(rng, shape=shape, max_subnets=rng.choice([4, 5, 6]),
                         max_hosts=3, n_public=rng.choice([1, 1, 2]),
                         open_firewall=rng.random() < 0.7, deny_rate=0.1,
                         step_limit=None, cost_domain="ge1")
    # make progress likely: every host runs every service on one OS half of
    # the time (the bound is about topology, not about vulnerability luck)
    if rng.random() < 0.5:
        for h in doc["host_configurations"].values():
            h["services"] = list(doc["services"])
            h["processes"] = list(doc["processes"])
        for e in doc["exploits"].values():
            e["os"] = "none"
            if e["prob"] == 0:
                e["prob"] = 0.5
        for e in doc["privilege_escalation"].values():
            e["os"] = "none"
            if e["prob"] == 0:
                e["prob"] = 0.5
    return {"kind": "yaml", "text": docgen.emit(doc, rng)}


def shaped_spec(rng, which):
    """Hand-shaped branching topologies: many sensitive department subnets
    behind one DMZ; two levels of branching with branch points that hold no
    sensitive host; deep branches of different lengths."""
    edges = [(0, 1)]
    sens_subnets = []
    if which == "departments":
        k = rng.randint(8, 10)
        for i in range(k):
            edges.append((1, 2 + i))
        sens_subnets = list(range(2, 2 + k))
        n = 1 + k
    elif which == "two_level":
        b = rng.randint(2, 3)
        n = 1
        for _ in range(b):
            n += 1
            branch = n
            edges.append((1, branch))
            for _ in range(rng.randint(2, 3)):
                n += 1
                edges.append((branch, n))
                sens_subnets.append(n)
    else:
        n = 1
        for _ in range(rng.randint(2, 3)):
            prev = 1
            for _ in range(rng.randint(1, 4)):
                n += 1
                edges.append((prev, n))
                prev = n
            sens_subnets.append(prev)
    doc = docgen.gen_doc(rng, shape="chain", max_subnets=1, max_hosts=1,
                         step_limit=None, cost_domain="ge1", deny_rate=0.0)
    srvs, procs, oss = doc["services"], doc["processes"], doc["os"]
    T = [[1 if i == j else 0 for j in range(n + 1)] for i in range(n + 1)]
    for a, b in edges:
        T[a][b] = T[b][a] = 1
    doc["subnets"] = [1] * n
    doc["topology"] = T
    doc["host_configurations"] = {
        docgen.A(s, 0): {"os": oss[0], "services": list(srvs),
                         "processes": list(procs)}
        for s in range(1, n + 1)}
    doc["sensitive_hosts"] = {docgen.A(s, 0): rng.choice([10, 100, 2.5])
                              for s in sens_subnets}
    for e in doc["exploits"].values():
        e["os"] = "none"
        e["prob"] = 1.0
        e["access"] = "root"
    doc["firewall"] = {docgen.A(i, j): list(srvs)
                       for i in range(n + 1) for j in range(n + 1)
                       if i != j and T[i][j] == 1}
    return {"kind": "yaml", "text": docgen.emit(doc, rng),
            "family": which}


def c20_run_one(prop, tier, root, idx, extra):
    seed = core.run_seed(prop, tier, root, idx)
    rng = core.stream(seed, "cfg")
    spec = c20_spec(rng, idx)
    return c20_execute({"spec": spec, "seed": seed}, tier,
                       {"idx": idx, "seed": seed})


def c20_execute(trace, tier, res):
    spec, seed = trace["spec"], trace["seed"]
    counters = core.Counters()
    res["trace"] = trace
    res["ops"] = res["steps"] = 0
    res["nontrivial"] = False
    res["case_digest"] = core.digest(core.jsonable(spec))
    sim = None
    try:
        try:
            sim = EnvSim(spec, {"fully_obs": False, "flat_actions": True,
                                "flat_obs": True}, [], seed, tier,
                         record=True)
        except SutError as e:
            res["sut_error"] = str(e)
            res["counters"] = dict(counters)
            return res
        cfg, env = sim.cfg, sim.env
        if not in_domain(cfg):
            counters.hit("skip.out_of_domain")
            res["counters"] = dict(counters)
            return res
        ref = min_hosts(cfg)
        if ref is None:
            counters.hit("skip.goal_unreachable_in_topology")
            res["counters"] = dict(counters)
            return res
        try:
            adv = int(env.get_minimum_hops())
            ub = float(env.get_score_upper_bound())
        except Exception as e:
            raise Violation("C20.hops", "the environment could not advertise "
                            "its minimum hops / score upper bound for a "
                            "valid scenario",
                            error=f"{type(e).__name__}: {e}"[:300],
                            sensitive=sorted(cfg.sensitive),
                            topology=cfg.topology)
        counters.hit("probe.hops_checked")
        sens_subnets = {a[0] for a in cfg.sensitive}
        if len(sens_subnets) >= 2:
            counters.hit("probe.two_or_more_sensitive_subnets")
        if len(cfg.sensitive) > len(sens_subnets):
            counters.hit("probe.two_sensitive_hosts_in_one_subnet")
        if any(h["discovery_value"] < 0 for h in cfg.hosts.values()):
            counters.hit("probe.negative_discovery_value")
        if adv > ref:
            raise Violation("C20.hops", "the advertised minimum hop count "
                            "exceeds the smallest number of hosts that must "
                            "be compromised (firewalls ignored)",
                            advertised=adv, reference=ref,
                            sensitive=sorted(cfg.sensitive),
                            topology=cfg.topology)
        if adv == ref:
            counters.hit("probe.hops_tight")
        # goal-reaching plans, replayed on the real environment
        plans = trace.get("plans")
        if plans is None:
            plans = []
            rng = core.stream(seed, "workload")
            p0, st = gensim.plan_closure(cfg)
            if model.goal(cfg, st):
                if len(p0) <= 80:
                    p0 = gensim.prune_plan(cfg, p0)
                plans.append(p0)
                for _ in range(3 if tier == "quick" else 8):
                    p = random_plan(cfg, rng)
                    if p is not None:
                        if len(p) <= 80:
                            p = gensim.prune_plan(cfg, p)
                        plans.append(p)
            else:
                counters.hit("skip.model_unsolvable")
            if plans and len(cfg.order) <= 6:
                ex = exact_best_plan(cfg)
                if ex is not None:
                    plans.insert(0, ex[1])
                    trace["exact_model_optimum"] = ex[0]
                    counters.hit("probe.exact_model_optimum")
            plans = [[[a.kind, list(a.target), a.name] for a in p]
                     for p in plans]
            # adversarial variants: every action but the last one twice (a
            # repeated action must be pure cost, never pay again)
            for p in list(plans[:2]):
                if len(p) >= 2:
                    plans.append([a for x in p[:-1] for a in (x, x)]
                                 + [p[-1]])
            trace["plans"] = plans
        res["nontrivial"] = bool(plans)
        best = None
        # episodes that follow a disturbed history: part of the plan is
        # played, a reset() call is rejected (bad seed; the caller catches
        # the exception), reset() is called properly, and the REST of the
        # plan is the judged episode.  With a correct reset that rest cannot
        # reach the goal (nothing is compromised any more) and is not
        # counted; whatever reaches the goal is held against the bound.
        fx = core.stream(seed, "faults2")
        variants = [(pi, plan, None, None) for pi, plan in enumerate(plans)]
        for pi, plan in enumerate(plans[:3]):
            if len(plan) >= 3:
                variants.append((pi, plan, fx.randint(1, len(plan) - 1),
                                 "reject"))
        for pi, plan in enumerate(plans[:2]):
            if len(plan) >= 3:
                # the agent continues the episode with a copy of the
                # environment (deep copy / pickle round trip) from some point
                variants.append((pi, plan, fx.randint(1, len(plan) - 1),
                                 fx.choice(["deepcopy", "pickle"])))
        if plans:
            # "pump" variant: before the last action of the plan, every
            # exploit and escalation the space offers on an already rooted
            # sensitive host is applied once more (lower-access actions on a
            # ROOT host, repeated root actions): pure cost on a correct tree
            base = plans[0]
            sens_keys = []
            for t in sorted(cfg.sensitive):
                for k in sim.table.by_target.get(t, ()):
                    if k[0] in ("exploit", "privesc"):
                        sens_keys.append([k[0], list(k[1]), k[2]])
            if len(base) >= 2 and sens_keys and len(sens_keys) <= 40:
                pumped = list(base[:-1]) + sens_keys + \
                    [a for a in base[:-1] if tuple(a[1]) in
                     {tuple(t) for t in cfg.sensitive}] + [base[-1]]
                variants.append((0, pumped, None, "pump"))
        for pi, plan, cut, vkind in variants:
            sim.exec_op({"op": "reset"})
            if vkind in ("deepcopy", "pickle"):
                counters.hit("fault.restart.deepcopy_fork")
                total = 0.0
                done = False
                # ... and, not trusting the copy, plays the whole plan again
                # on it (on a faithful copy the repeated part is pure cost)
                seq = [(a, False) for a in plan[:cut]] + \
                    [(a, j == 0) for j, a in enumerate(plan)]
                for a, fork_first in seq:
                    if fork_first:
                        sim.exec_op({"op": "fork", "how": vkind,
                                     "orig_steps": 0})
                    sim.exec_op({"op": "step", "a": a,
                                 "u": [float(0.0).hex()]})
                    out = sim.record[-1][1]
                    total += out["reward"]
                    done = out["done"]
                    res["ops"] += 1
                plan = []          # played above; judged below
            elif cut is not None:
                counters.hit("fault.rejected_reset_mid_episode")
                for a in plan[:cut]:
                    sim.exec_op({"op": "step", "a": a,
                                 "u": [float(0.0).hex()]})
                sim.exec_op({"op": "reject", "call": "reset",
                             "how": fx.choice(["neg", "float", "str",
                                               "int64"])})
                sim.exec_op({"op": "reset"})
                plan = plan[cut:]
            if vkind not in ("deepcopy", "pickle"):
                total = 0.0
                done = False
            for a in plan:
                sim.exec_op({"op": "step", "a": a,
                             "u": [float(0.0).hex()]})
                out = sim.record[-1][1]
                total += out["reward"]
                done = out["done"]
                res["ops"] += 1
            if not done:
                counters.hit("plan_did_not_reach_goal_on_real_env")
                continue
            counters.hit("probe.goal_reaching_episode")
            if best is None or total > best:
                best = total
            # the bound is advertised by the environment at any time: ask
            # again after the episode (and mid-episode states were passed)
            try:
                ub_after = float(env.get_score_upper_bound())
                adv_after = int(env.get_minimum_hops())
            except Exception as e:
                raise Violation("C20.hops", "the environment could not "
                                "advertise its minimum hops / score upper "
                                "bound after an episode",
                                error=f"{type(e).__name__}: {e}"[:300])
            counters.hit("probe.bound_requeried_after_episode")
            if adv_after > ref:
                raise Violation("C20.hops", "the minimum hop count advertised"
                                " after an episode exceeds the reference "
                                "minimum", advertised=adv_after,
                                reference=ref)
            if total > min(ub, ub_after):
                ub = min(ub, ub_after)
            # rewards live in float32 cells: the comparison uses the same
            # relative tolerance as every other reward comparison (1e-5)
            if total > ub and not model.feq(total, ub):
                raise Violation(
                    "C20.bound", "a goal-reaching episode on the real "
                    "environment earned more than the advertised score "
                    "upper bound", episode_total=total, upper_bound=ub,
                    advertised_hops=adv, reference_min_hosts=ref,
                    plan=plan, sensitive=sorted(cfg.sensitive),
                    topology=cfg.topology)
        if best is not None and model.feq(best, ub):
            counters.hit("probe.bound_attained")
        res["steps"] = res["ops"]
    except Violation as v:
        res["violation"] = v.to_json()
    except SutError as e:
        res["sut_error"] = str(e)
    finally:
        if sim is not None:
            sim.close()
    res["counters"] = dict(counters)
    return res
